#!/bin/bash
# usage: lib_prep.sh <scratch> [race]
# Builds, in <scratch>, a shimmed copy of the repository working tree
# (VERIF_REPO, default /repo) and the harness binary <scratch>/vh.
set -u
SCR="$1"; RACE="${2:-}"
REPO="${VERIF_REPO:-/repo}"
V="$(cd "$(dirname "${BASH_SOURCE[0]}")" && pwd)"
export GOFLAGS=-mod=mod GOPROXY=off GOSUMDB=off GOTOOLCHAIN=local CGO_ENABLED=${CGO_ENABLED:-1}
mkdir -p "$SCR/cache" || exit 2
rsync -a --delete --exclude .git --exclude '*_test.go' --exclude examples "$REPO"/ "$SCR/cache"/ || exit 2
mkdir -p "$SCR/cache/zzverif/vshim"
cp $V/inject/vshim/*.go "$SCR/cache/zzverif/vshim/"
cp $V/inject/cache/*.go "$SCR/cache/"
cp $V/inject/xsync/*.go "$SCR/cache/internal/xsync/"
if [ ! -x $V/bin/vprep ]; then
  mkdir -p $V/bin
  (cd $V/tools/vprep && GOFLAGS= go build -o $V/bin/vprep . ) || { echo "PREP: cannot build vprep"; exit 2; }
fi
$V/bin/vprep "$SCR/cache" "$SCR/cache/internal/xsync" > "$SCR/vprep.log" 2>&1 || { cat "$SCR/vprep.log"; echo "PREP: vprep failed"; exit 2; }
rsync -a --exclude '*.sum.orig' $V/harness/ "$SCR/harness"/
TAGS=verif
FLAGS="-trimpath"
[ "$RACE" = race ] && FLAGS="$FLAGS -race"
cd "$SCR/harness"
if ! go build $FLAGS -tags $TAGS -o "$SCR/vh" . > "$SCR/build.log" 2>&1; then
  # the optional inspector reads unexported fields; retry without it
  if go build $FLAGS -tags $TAGS,noinspect -o "$SCR/vh" . > "$SCR/build2.log" 2>&1; then
    echo "PREP: inspector unavailable (built with noinspect)"; echo noinspect > "$SCR/noinspect"
  elif go build $FLAGS -tags $TAGS,noinspect,noxsyncapi -o "$SCR/vh" . > "$SCR/build3.log" 2>&1; then
    echo "PREP: inspector and xsync diagnostic API unavailable (built with noinspect,noxsyncapi): no table statistics, custom hashers replaced by the default one"; echo noxsyncapi > "$SCR/noinspect"
  else
    echo "PREP: build failed"; cat "$SCR/build.log"; exit 2
  fi
fi
exit 0
