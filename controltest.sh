#!/bin/bash
# usage: [CONTROL_PROPS="C06 C15"] controltest.sh [control-dir...]   (default: every directory under controls/, all sixteen checks)
# Negative controls: behaviour-preserving (for the 16 properties) variants of the
# repository. Every quick check must stay silent on each of them. Prints one line
# per control and check; exits 1 if any check raised an alarm.
HERE="$(cd "$(dirname "$0")" && pwd)"
cd "$HERE"
dirs=("$@"); [ ${#dirs[@]} -eq 0 ] && dirs=(controls/*/)
bad=0
for d in "${dirs[@]}"; do
  d=${d%/}
  props=${CONTROL_PROPS:-$(cat "$d/props" 2>/dev/null || echo "C01 C02 C03 C04 C05 C06 C07 C08 C09 C10 C11 C12 C13 C14 C15 C16")}
  out=$(./seedtest.sh "$d/patch.diff" $props 2>&1)
  echo "$out" | sed "s#^#$(basename $d) #" | cut -c1-260
  echo "$out" | grep -q "rc=[^0]" && bad=1
done
exit $bad
