#!/usr/bin/env python3
"""Regenerates MANIFEST.json from plans.py and the texts below."""
import json, sys
sys.path.insert(0, '.')
from plans import PLANS

T = {
 "C01": ("differential run-time monitor: sequential PRNG call sequences under a substituted virtual clock, every result compared with an executable TTL model; plus recorded-history linearizability checking of concurrent rounds, two-goroutine schedule enumeration (resizer x writer stall points, reader single-stepping) and same-key call-pair enumeration incl. a ticking clock",
         "Sampled exploration of call sequences and clock schedules (state-aware generator hits every method on absent / live / at-boundary / expired-uncleaned entries, bulk waves cross grow and shrink thresholds); the oracle is exact for every call made. Held on the sequences run, not a proof over all sequences.", "§5 C01"),
 "C02": ("recorded-history linearizability checking (porcupine) of concurrent Cache/CacheOf rounds against the TTL model, virtual clock frozen per phase, perturbation at every sync operation; schedule enumerations (pairstall, oppair, reader harassment) with exact oracles; native-speed provenance storms (own-write read-back, 64 KiB keys)",
         "Sampled exploration of interleavings (2-16 goroutines, few keys, Gosched perturbation at every atomic/lock operation, GOMAXPROCS 1..16, janitor on a fake ticker, resizes in flight); each recorded history is decided exactly by porcupine per key and unpartitioned for the small family.", "§5 C02"),
 "C03": ("recorded-history linearizability checking (porcupine) of concurrent Map rounds against a builtin-map model, plus provenance monitors, schedule enumerations (resizer x writer stall points incl. Clear of a grown table, reader single-stepping, same-key call pairs) with exact oracles and an aftermath probe, native-speed storms",
         "Sampled exploration of interleavings over bucket-mate hot keys, slot churn, grow/shrink waves and Clear racing grows; every recorded history decided exactly.", "§5 C03"),
 "C04": ("recorded-history linearizability checking (porcupine) of concurrent MapOf rounds (int/string/struct keys, default and colliding hashers)",
         "As C03 for MapOf, including constant / same-bucket / same-7-bit-hash hashers injected through an exported constructor of the scratch build.", "§5 C04"),
 "C05": ("exact counting oracles (also in a child started with GOMAXPROCS=1) over single-key races (one loaded=false, one value, valueFn invocation counts, swap permutation, increment chain) under perturbation and grow-in-flight",
         "Sampled exploration of k-racer interleavings on one key in every start state with a grow forced during the race; each round decided exactly by counting.", "§5 C05"),
 "C06": ("callback ledger monitor: sequential differential (callbacks == Count decrease, right key/value/callback) plus concurrent at-most-once / provenance / no-read-after-eviction over recorded histories; enumerated scenarios (settings pair, overlapping sweeps, re-entrant refresh-on-evict callbacks with a conservation oracle)",
         "Sampled exploration of call sequences and of interleavings of removers with writers; ledger oracles are exact on what was recorded.", "§5 C06"),
 "C07": ("traversal monitors: quiescent exactness vs model, re-entrant visitor with version tracking, concurrent traversals checked against per-key version windows recorded with tickets",
         "Sampled exploration of container shapes and of interleavings of traversals with owned-key writers, resizes and Clear; oracles exact per recorded traversal.", "§5 C07"),
 "C08": ("quiescent-point structural monitor after concurrent phases (incl. hot-bucket fills and concurrent Size observers): Size/Count vs Range visits vs Load over the universe vs walked table size; sequential Count bounds",
         "Sampled exploration of concurrent histories followed by a quiescent point (perturbation concentrated between slot update and counter update); the comparison at each point is exact.", "§5 C08"),
 "C09": ("differential run-time monitor under the virtual clock with exact-instant assertions; catalogue product TTL x default x constructor x method x prior state enumerated completely, then PRNG sequences",
         "The catalogue product is exhaustive over the listed boundary values (each with reads at e-1, e, e+1); beyond it sampled exploration.", "§5 C09"),
 "C10": ("differential against builtin map[K]int per key type (one process per type, 32 generic instantiations incl. interface-typed keys), default and forced-collision hashers, pointee mutation",
         "Sampled exploration of call sequences over pools with equal-but-differently-represented and similar-but-different keys for every comparable kind; panics are caught as process crashes with library frames.", "§5 C10"),
 "C11": ("multi-instance lock-step differential: one call sequence on a builtin map and on 3-5 instances with other size hints / hashers; threshold-crossing waves and full-chain probes",
         "Sampled exploration of call sequences and layouts (fresh random seed per table, hints -1..100000, constant hasher forcing full chains); every result compared exactly.", "§5 C11"),
 "C12": ("twin lock-step differential: one call sequence on Cache and CacheOf[string,any] (Map and MapOf[string,any]), every observable field compared (incl. what re-entrant callbacks observe, option lists with overridden options); the concurrent monitors of C02/C03/C08 on the twin flavours",
         "Sampled exploration of call sequences with exotic values and all constructor pairs; concurrent rounds on the twin flavours are sampled as in C02/C03.", "§5 C12"),
 "C13": ("bounded-progress monitor: polling locks make every wait consume counted shim steps; per-call step budgets, runtime deadlock detector, lock ledger, post-phase sweep; re-entrant visitors/callbacks",
         "Sampled exploration: all return paths via the sequential sequences, stress rounds with resize pressure, re-entrancy cases. Liveness is decided in its bounded form only.", "§5 C13"),
 "C14": ("Go race detector (-race build of the real code, shim without shared state) over hostile mixed workloads with checksummed pointer payloads",
         "Sampled exploration of 2-64 goroutine workloads on all four containers; the detector decides every executed access pair, nothing about paths not executed.", "§5 C14"),
 "C15": ("time-source registry (tickers, timers) + virtual time with ticks delivered only when due + end-of-pass detection from goroutine states + janitor-pass stall enumeration + GC-cycle-bounded lifetime accounting (goroutines per cache, finalizer sentinels) with idle and busy janitors",
         "Constructor x interval table enumerated completely; TTL/tick schedules and lifetime rounds sampled. Bounded cleanup = removed by the pass of the second tick after expiry.", "§5 C15"),
 "C16": ("stall-point enumeration: writer parked at every shim step of its operation (or inside its user function) while a reader runs every lookup under a step budget",
         "Fault enumeration over all stall points of the executions produced (every atomic/lock/wait operation of 13 writer operations on 8 container kinds), layouts resampled per round; one writer stalled at a time.", "§5 C16"),
}

checks = []
for pid in sorted(PLANS):
    tech, text, ref = T[pid]
    p = PLANS[pid]
    checks.append(dict(
        property_id=pid,
        quick_cmd="./check %s quick" % pid,
        thorough_cmd="./check %s thorough" % pid,
        evidence_file="/verif/evidence/%s.json" % pid,
        replay_cmd_template="./check replay {path}",
        engine="harness/vh (%s)" % ", ".join(sorted({j["engine"] for j in p["jobs"]("quick", 16)})),
        level_claimed=dict(category=p["level"], text=text, design_ref=ref),
        level_note="Trusted base: the Go toolchain and runtime, the selector rewriter tools/vprep (position-preserving substitution of sync/atomic, sync, time, runtime.Gosched), the shim inject/vshim, the harness and its sequential models (DESIGN.md appendix A), porcupine v1.3.0 where used. " + " ".join(p.get("assumptions", [])),
        technique=tech))

m = json.load(open("MANIFEST.json"))
m["checks"] = checks
m["not_applicable"] = []
m["engines"] = [
    dict(name="vh", path="/verif/harness", serves_properties=sorted(PLANS), kind_free_text="Go harness (one binary, sub-commands seq, seqmap, linzmap, linzcache, atomic, keys, sizeq, traverse, term, racestress, janitor, stall, pairstall, oppair) built per check against a shimmed scratch copy of /repo"),
    dict(name="vprep", path="/verif/tools/vprep", serves_properties=sorted(PLANS), kind_free_text="selector rewriter that redirects sync/atomic, sync, time and runtime.Gosched to the shim"),
    dict(name="vshim", path="/verif/inject/vshim", serves_properties=sorted(PLANS), kind_free_text="interception layer: perturbation, step accounting, park points, polling locks, virtual clock, fake tickers, lock ledger"),
]
m["notes"] = "Runtime monitoring only. ./check <ID> quick|thorough rebuilds a shimmed copy of /repo's working tree on every invocation (VERIF_REPO overrides the source dir, VERIF_SEED seeds the generators). Known findings: known_findings.json (five defects found, all fixed by fix: commits in /repo)."
json.dump(m, open("MANIFEST.json", "w"), indent=1)
print("checks:", len(checks))
