package main

import (
	"flag"
	"fmt"
	"os"
	"runtime/debug"
	"strings"
	"time"
)

type engineFn func(a *args, res *result)

type args struct {
	prop    string
	seed    int64
	stripe  int
	stripes int
	n       int64 // number of cases / rounds (meaning is per engine)
	n2      int64
	only    int64 // run just this case index (replay), -1 = all
	out     string
	tier    string
	extra   string
}

var engines = map[string]engineFn{}

func main() {
	if len(os.Args) < 2 {
		fmt.Fprintln(os.Stderr, "usage: vh <engine> [flags]")
		os.Exit(2)
	}
	eng := os.Args[1]
	fs := flag.NewFlagSet(eng, flag.ExitOnError)
	a := &args{}
	fs.StringVar(&a.prop, "prop", "", "property id")
	fs.Int64Var(&a.seed, "seed", 1, "seed")
	fs.IntVar(&a.stripe, "stripe", 0, "stripe index")
	fs.IntVar(&a.stripes, "stripes", 1, "number of stripes")
	fs.Int64Var(&a.n, "n", 100, "cases / rounds")
	fs.Int64Var(&a.n2, "n2", 0, "secondary count")
	fs.Int64Var(&a.only, "only", -1, "replay a single case index")
	fs.StringVar(&a.out, "out", "result.json", "result file")
	fs.StringVar(&a.tier, "tier", "quick", "tier")
	fs.StringVar(&a.extra, "extra", "", "engine specific")
	caselog := fs.String("caselog", "", "file receiving the description of the running case")
	fs.Parse(os.Args[2:])
	f, ok := engines[eng]
	if !ok {
		var names []string
		for n := range engines {
			names = append(names, n)
		}
		fmt.Fprintf(os.Stderr, "unknown engine %q (have %s)\n", eng, strings.Join(names, " "))
		os.Exit(2)
	}
	if *caselog != "" {
		caseLog, _ = os.Create(*caselog)
	}
	debug.SetTraceback("all")
	start := time.Now()
	res := newResult(eng, a.prop, a.seed, a.stripe)
	f(a, res)
	res.write(a.out, start)
}

func (a *args) mine(i int64) bool {
	if a.only >= 0 {
		return i == a.only
	}
	return int(i%int64(a.stripes)) == a.stripe
}
