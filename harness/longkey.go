package main

import (
	"fmt"
	"runtime"
	"strings"
	"sync"
	"sync/atomic"
	"time"

	cache "github.com/fufuok/cache"
	"github.com/fufuok/cache/zzverif/vshim"
)

// Long-key storm (native speed). Between "this slot holds my key" and "read its
// value" a reader executes no synchronisation operation the shim could stop it
// at - only the key comparison. With 64 KiB keys that comparison takes
// microseconds, so a slot (or an entry object) that is deleted and re-used for
// another key meanwhile is caught red-handed: every value carries the key it was
// stored under. Writers cycle Store(long), Delete(long), Store(short), readers
// look the keys up through private copies of the key strings (no pointer-equality
// shortcut) and check the provenance of whatever they get.

const longKeyLen = 64 << 10

type lkTarget struct {
	name  string
	load  func(k string) (any, bool)
	store func(k string, v any)
	del   func(k string)
}

func newLongKeyTarget(kind string) lkTarget {
	switch kind {
	case "Map":
		m := cache.NewMap()
		return lkTarget{kind, func(k string) (any, bool) { return m.Load(k) }, func(k string, v any) { m.Store(k, v) }, func(k string) { m.Delete(k) }}
	case "MapOf[string,val]":
		m := cache.NewMapOf[string, val]()
		return lkTarget{kind, func(k string) (any, bool) { v, ok := m.Load(k); return v, ok }, func(k string, v any) { m.Store(k, v.(val)) }, func(k string) { m.Delete(k) }}
	case "Cache":
		c := cache.New(cache.WithCleanupInterval(0))
		return lkTarget{kind, func(k string) (any, bool) { return c.Get(k) }, func(k string, v any) { c.Set(k, v, time.Hour) }, func(k string) { c.Delete(k) }}
	default:
		c := cache.NewOf[string, any](cache.WithCleanupIntervalOf[string, any](0))
		return lkTarget{"CacheOf[string,any]", func(k string) (any, bool) { return c.Get(k) }, func(k string, v any) { c.Set(k, v, time.Hour) }, func(k string) { c.Delete(k) }}
	}
}

func longKeyStorm(r rng, res *result, idx int64, kind string) {
	vshim.SetVirtual(true)
	vshim.SetVNow(epoch)
	t := newLongKeyTarget(kind)
	const kL = 9001
	const nShort = 6
	prefix := strings.Repeat("L", longKeyLen-1)
	mkLong := func() string { return string(append([]byte(prefix), 'x')) } // a private copy
	writers := r.between(1, 3)
	readers := r.between(3, 8)
	cycles := pick(r, []int{300, 600})
	logCase("long-key storm round %d %s writers=%d readers=%d cycles=%d", idx, t.name, writers, readers, cycles)
	old := runtime.GOMAXPROCS(16)
	vshim.SetPerturb(0, vshim.NKinds)
	vshim.ResetLive()
	vshim.SetMode(vshim.MCount | vshim.MBudget)
	var wg, rwg sync.WaitGroup
	var stop int32
	var wrong, reads int64
	var firstBad atomic.Value
	check := func(v any, ok bool, want int, what string) {
		atomic.AddInt64(&reads, 1)
		if !ok {
			return
		}
		x, isVal := v.(val)
		if !isVal || !x.ok() || int(x.K) != want {
			if atomic.AddInt64(&wrong, 1) == 1 {
				firstBad.Store(fmt.Sprintf("%s returned (%s,true): not a value stored under that key (key id %d)", what, fmtVal(v), want))
			}
		}
	}
	start := make(chan struct{})
	for g := 0; g < writers; g++ {
		wg.Add(1)
		go func(g int) {
			defer wg.Done()
			long := mkLong()
			<-start
			for c := 0; c < cycles; c++ {
				t.store(long, nextVal(kL))
				t.del(long)
				j := (c + g) % nShort
				t.store(fmt.Sprintf("s%d", j), nextVal(9100+j))
				if c%3 == 0 {
					t.del(fmt.Sprintf("s%d", (j+1)%nShort))
				}
				vshim.Progress()
			}
		}(g)
	}
	for g := 0; g < readers; g++ {
		rwg.Add(1)
		go func(g int) {
			defer rwg.Done()
			long := mkLong()
			shorts := make([]string, nShort)
			for j := range shorts {
				shorts[j] = fmt.Sprintf("s%d", j)
			}
			<-start
			for n := 0; atomic.LoadInt32(&stop) == 0; n++ {
				v, ok := t.load(long)
				check(v, ok, kL, "lookup of the long key")
				j := n % nShort
				v, ok = t.load(shorts[j])
				check(v, ok, 9100+j, "lookup of a short key")
				if n&255 == 0 {
					vshim.Progress()
				}
			}
		}(g)
	}
	close(start)
	wg.Wait()
	atomic.StoreInt32(&stop, 1)
	rwg.Wait()
	vshim.SetMode(0)
	runtime.GOMAXPROCS(old)
	res.Evaluations++
	res.count("family:long-key-storm", 1)
	res.count("long_key_reads", atomic.LoadInt64(&reads))
	fp := newFP()
	fp.addStr("long-key-storm" + t.name)
	fp.add(uint64(idx), uint64(writers), uint64(readers))
	res.nontrivial(fp.sum())
	if n := atomic.LoadInt64(&wrong); n > 0 {
		res.violate(violation{Class: "storm", Sig: "a lookup returns a value that was stored under another key (slot or entry re-used during the key comparison)",
			Msg: fmt.Sprintf("%s: %d of %d lookups; first: %s", t.name, n, atomic.LoadInt64(&reads), firstBad.Load()), Case: map[string]any{"case_index": idx, "kind": t.name}})
	}
}
