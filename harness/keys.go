package main

import (
	"fmt"
	"math"
	"sort"
	"time"
	"unsafe"

	cache "github.com/fufuok/cache"
)

func init() { engines["keys"] = runKeys }

// C10: keys are matched by Go equality for every comparable key type.
// Differential against the builtin map[K]int, one process per key type.

type keyType struct {
	name string
	run  func(a *args, res *result)
}

type padded struct {
	A int8
	B int64
	C int8
}

type strF struct {
	S string
	F float64
}

type nested struct {
	P padded
	S strF
	X [2]int16
}

type ptrF struct {
	P *int
	N int
}

type ifaceF struct {
	I any
	N int
}

type myStr string

func (s myStr) String() string { return string(s) }

type myPtr struct{ x, y int }

func (p *myPtr) String() string { return "p" }

type myInt int

func (i myInt) String() string { return "i" }

type onePtr struct{ p *int } // pointer-shaped struct: stored directly in an interface word

type twoWords struct{ a, b uintptr }

func mkPadded(a int8, b int64, c int8, garbage byte) padded {
	var p padded
	// write garbage into every byte, then set the fields: padding keeps the garbage
	bs := (*[unsafe.Sizeof(p)]byte)(unsafe.Pointer(&p))
	for i := range bs {
		bs[i] = garbage
	}
	p.A, p.B, p.C = a, b, c
	return p
}

func dupString(s string) string { return string(append([]byte(nil), s...)) }

func keyCatalogue() []keyType {
	ints := make([]*int, 12)
	for i := range ints {
		x := i % 4 // several pointers to equal contents
		ints[i] = &x
	}
	chans := []chan int{nil, make(chan int), make(chan int), make(chan int, 1)}
	mps := []*myPtr{{1, 2}, {1, 2}, {3, 4}, nil}
	mutInts := func(step int) {
		for i, p := range ints {
			*p = step*31 + i
		}
	}
	mutMps := func(step int) {
		for _, p := range mps {
			if p != nil {
				p.x, p.y = step, -step
			}
		}
	}
	var nilIntPtr *int
	var nilStringer fmt.Stringer
	return []keyType{
		kt("string", func() []string {
			return []string{"", "a", dupString("a"), "ab", dupString("ab"), "b", "a\x00", "\x00", "abcdefghijklmnopqrstuvwxyz0123456789", dupString("abcdefghijklmnopqrstuvwxyz0123456789"), "abcdefghijklmnopqrstuvwxyz012345678", "é", "é"}
		}, func(i int) string { return fmt.Sprintf("key-%d", i) }, nil),
		kt("int", func() []int { return []int{0, 1, -1, 2, math.MaxInt64, math.MinInt64, 1 << 32, 1<<32 + 1} }, func(i int) int { return i * 3 }, nil),
		kt("int8", func() []int8 { return []int8{0, 1, -1, 127, -128, 2} }, nil, nil),
		kt("int16", func() []int16 { return []int16{0, 1, -1, 32767, -32768, 256} }, nil, nil),
		kt("int32", func() []int32 { return []int32{0, 1, -1, math.MaxInt32, math.MinInt32, 65536} }, func(i int) int32 { return int32(i) }, nil),
		kt("int64", func() []int64 { return []int64{0, 1, -1, math.MaxInt64, math.MinInt64, 1 << 40} }, func(i int) int64 { return int64(i) << 20 }, nil),
		kt("uint", func() []uint { return []uint{0, 1, 2, math.MaxUint64, 1 << 63} }, nil, nil),
		kt("uint8", func() []uint8 { return []uint8{0, 1, 2, 255, 128} }, nil, nil),
		kt("uint16", func() []uint16 { return []uint16{0, 1, 2, 65535, 256} }, nil, nil),
		kt("uint32", func() []uint32 { return []uint32{0, 1, 2, math.MaxUint32, 1 << 31} }, nil, nil),
		kt("uint64", func() []uint64 { return []uint64{0, 1, 2, math.MaxUint64, 1 << 63} }, func(i int) uint64 { return uint64(i) * 0x9e3779b97f4a7c15 }, nil),
		kt("uintptr", func() []uintptr { return []uintptr{0, 1, 8, ^uintptr(0)} }, nil, nil),
		kt("float32", func() []float32 {
			return []float32{0, float32(math.Copysign(0, -1)), 1, -1, float32(math.Inf(1)), float32(math.Inf(-1)), math.SmallestNonzeroFloat32, math.MaxFloat32, 0.5}
		}, nil, nil),
		kt("float64", func() []float64 {
			return []float64{0, math.Copysign(0, -1), 1, -1, math.Inf(1), math.Inf(-1), math.SmallestNonzeroFloat64, math.MaxFloat64, 0.1, 0.1 + 1e-17}
		}, func(i int) float64 { return float64(i) / 7 }, nil),
		kt("complex64", func() []complex64 {
			nz := float32(math.Copysign(0, -1))
			return []complex64{0, complex(nz, 0), complex(0, nz), complex(nz, nz), 1, 1i, 1 + 1i, -1}
		}, nil, nil),
		kt("complex128", func() []complex128 {
			nz := math.Copysign(0, -1)
			return []complex128{0, complex(nz, 0), complex(0, nz), complex(nz, nz), 1, 1i, 1 + 1i, complex(math.Inf(1), 0)}
		}, nil, nil),
		kt("bool", func() []bool { return []bool{false, true} }, nil, nil),
		kt("*int", func() []*int { return append([]*int{nil}, ints...) }, nil, mutInts),
		kt("unsafe.Pointer", func() []unsafe.Pointer {
			return []unsafe.Pointer{nil, unsafe.Pointer(ints[0]), unsafe.Pointer(ints[1]), unsafe.Pointer(ints[0])}
		}, nil, mutInts),
		kt("chan int", func() []chan int { return chans }, nil, nil),
		kt("[0]int", func() [][0]int { return [][0]int{{}, {}} }, nil, nil),
		kt("[4]byte", func() [][4]byte { return [][4]byte{{}, {0, 0, 0, 1}, {1, 0, 0, 0}, {1, 2, 3, 4}, {0, 0, 0, 1}} }, func(i int) [4]byte { return [4]byte{byte(i), byte(i >> 8), byte(i >> 16), 7} }, nil),
		kt("[3]string", func() [][3]string {
			return [][3]string{{}, {"a", "", ""}, {"", "a", ""}, {dupString("a"), "", ""}, {"a", "b", "c"}, {"ab", "", "c"}, {"a", "b", dupString("c")}}
		}, nil, nil),
		kt("struct{}", func() []struct{} { return []struct{}{{}, {}} }, nil, nil),
		kt("padded", func() []padded {
			return []padded{mkPadded(1, 2, 3, 0), mkPadded(1, 2, 3, 0xff), mkPadded(1, 2, 3, 0x55), mkPadded(1, 2, 4, 0), mkPadded(0, 2, 3, 0xaa), mkPadded(1, 3, 3, 0), {}, mkPadded(0, 0, 0, 0xee)}
		}, func(i int) padded { return mkPadded(int8(i), int64(i)*17, int8(i>>8), byte(i*13)) }, nil),
		kt("strF", func() []strF {
			return []strF{{}, {"a", 0}, {dupString("a"), math.Copysign(0, -1)}, {"a", 1}, {"b", 0}, {"", math.Copysign(0, -1)}, {"ab", 0.5}, {dupString("ab"), 0.5}}
		}, func(i int) strF { return strF{fmt.Sprint(i % 50), float64(i / 50)} }, nil),
		kt("nested", func() []nested {
			return []nested{{}, {P: mkPadded(1, 1, 1, 0xff)}, {P: mkPadded(1, 1, 1, 0)}, {S: strF{"x", 0}}, {S: strF{dupString("x"), math.Copysign(0, -1)}}, {X: [2]int16{1, 0}}, {X: [2]int16{0, 1}}}
		}, nil, nil),
		kt("ptrF", func() []ptrF {
			return []ptrF{{}, {ints[0], 0}, {ints[1], 0}, {ints[0], 1}, {nil, 1}, {ints[4], 0}}
		}, nil, mutInts),
		kt("ifaceF", func() []ifaceF {
			return []ifaceF{{}, {1, 0}, {int64(1), 0}, {"1", 0}, {1, 1}, {nil, 1}, {ints[0], 0}, {ints[1], 0}, {nilIntPtr, 0}, {0.0, 0}, {math.Copysign(0, -1), 0}, {dupString("1"), 0}}
		}, nil, mutInts),
		kt("any", func() []any {
			return []any{nil, 1, int64(1), int32(1), uint(1), int8(1), "1", dupString("1"), true, false, 1.0, 0.0, math.Copysign(0, -1), float32(0),
				ints[0], ints[1], ints[4], nilIntPtr, (*myPtr)(nil), mps[0], mps[1], onePtr{ints[0]}, onePtr{ints[1]}, onePtr{nil}, onePtr{ints[0]},
				[2]int{1, 2}, [2]int{2, 1}, padded{1, 2, 3}, mkPadded(1, 2, 3, 0xff), strF{"a", 0}, strF{dupString("a"), math.Copysign(0, -1)},
				twoWords{1, 2}, twoWords{2, 1}, myStr("a"), "a", myInt(1), struct{}{}, [0]int{}, chans[1], chans[2], complex(1, 0), unsafe.Pointer(ints[0]), uintptr(1), 'a', byte('a')}
		}, func(i int) any {
			switch i % 4 {
			case 0:
				return i
			case 1:
				return fmt.Sprint(i)
			case 2:
				return float64(i) + 0.5
			default:
				return [2]int{i, -i}
			}
		}, func(step int) { mutInts(step); mutMps(step) }),
		kt("fmt.Stringer", func() []fmt.Stringer {
			return []fmt.Stringer{nilStringer, myStr(""), myStr("a"), myStr(dupString("a")), myStr("b"), myInt(0), myInt(1), mps[0], mps[1], mps[2], (*myPtr)(nil), time.Duration(1), time.Duration(2), time.Second}
		}, nil, mutMps),
	}
}

// Two DIFFERENT key types with the same printed name (function-local types),
// used one after the other in one process: anything keyed by a type's name
// instead of its identity confuses them.
func sameNameTypes() keyType {
	return keyType{name: "same-name-local-types", run: func(a *args, res *result) {
		func() {
			type dupKey struct{ a, b float32 }
			nz := float32(math.Copysign(0, -1))
			kt("dupKey{a,b float32}", func() []dupKey {
				return []dupKey{{0, 0}, {nz, 0}, {0, nz}, {nz, nz}, {1, 2}, {2, 1}, {1, nz}, {1, 0}}
			}, func(i int) dupKey { return dupKey{float32(i), float32(-i)} }, nil).run(a, res)
		}()
		func() {
			type dupKey struct{ s string }
			kt("dupKey{s string}", func() []dupKey {
				return []dupKey{{""}, {"a"}, {dupString("a")}, {"ab"}, {dupString("ab")}, {"b"}, {dupString("long-string-0123456789")}, {"long-string-0123456789"}}
			}, func(i int) dupKey { return dupKey{fmt.Sprintf("k%d", i)} }, nil).run(a, res)
		}()
		func() {
			type dupKey struct {
				p *int
				n int8
			}
			x, y := 1, 1
			kt("dupKey{p *int; n int8}", func() []dupKey {
				return []dupKey{{}, {&x, 0}, {&y, 0}, {&x, 1}, {nil, 1}}
			}, nil, nil).run(a, res)
		}()
	}}
}

func kt[K comparable](name string, pool func() []K, gen func(int) K, mutate func(int)) keyType {
	return keyType{name: name, run: func(a *args, res *result) { runKeyType(a, res, name, pool(), gen, mutate) }}
}

var keyOps = []string{"Store", "Load", "Load", "LoadOrStore", "LoadAndStore", "LoadAndDelete", "Delete", "Compute", "LoadOrCompute"}

func runKeyType[K comparable](a *args, res *result, name string, pool []K, gen func(int) K, mutate func(int)) {
	// equal pairs / near pairs of the pool, per Go equality
	eq, ne := 0, 0
	for i := range pool {
		for j := i + 1; j < len(pool); j++ {
			if pool[i] == pool[j] {
				eq++
			} else {
				ne++
			}
		}
	}
	res.count("equal_pairs_in_pool:"+name, int64(eq))
	res.count("distinct_pairs_in_pool:"+name, int64(ne))
	for s := int64(0); s < a.n; s++ {
		r := newRng(a.seed, uint64(s)*16+11)
		keys := pool
		large := gen != nil && s%8 == 7
		if large {
			keys = append([]K{}, pool...)
			for i := 0; i < 3000; i++ {
				keys = append(keys, gen(i))
			}
		}
		index := make(map[K]int, len(keys))
		for i, k := range keys {
			if _, ok := index[k]; !ok {
				index[k] = i
			}
		}
		variant := r.intn(6)
		churn := s%8 == 3
		if churn {
			// collide-churn: every key in one chain, stored once, then deleted in forward,
			// reverse or shuffled order with every remaining key looked up after each delete
			variant = 2
			if gen != nil {
				keys = append([]K{}, pool...)
				for i := 0; i < 60; i++ {
					keys = append(keys, gen(i))
				}
				index = make(map[K]int, len(keys))
				for i, k := range keys {
					if _, ok := index[k]; !ok {
						index[k] = i
					}
				}
			}
		}
		var m cache.MapOf[K, int]
		var c cache.CacheOf[K, int]
		vname := ""
		switch variant {
		case 0:
			m, vname = cache.NewMapOf[K, int](), "MapOf/default"
		case 1:
			m, vname = cache.NewMapOfPresized[K, int](pick(r, []int{-1, 0, 1000})), "MapOf/presized"
		case 2:
			m, vname = cache.VerifNewMapOfWithHasher[K, int](func(k K, seed uint64) uint64 { return 42 }, 0), "MapOf/const-hasher"
		case 3:
			m, vname = cache.VerifNewMapOfWithHasher[K, int](func(k K, seed uint64) uint64 { return uint64(index[k]%3) * 0x10001 }, 0), "MapOf/low-entropy-hasher"
		default:
			c, vname = cache.NewOf[K, int](cache.WithCleanupIntervalOf[K, int](0)), "CacheOf/default"
		}
		ref := map[K]int{}
		nops := int(a.n2)
		if large {
			nops *= 20
		}
		fp := newFP()
		fp.addStr(name + vname)
		logCase("keys %s seq %d variant %s ops %d large=%v", name, s, vname, nops, large)
		bad := func(op string, ki int, format string, x ...any) {
			res.violate(violation{Class: "keys", Sig: fmt.Sprintf("%s key: %s disagrees with builtin map", name, op),
				Msg:  fmt.Sprintf("%s %s: %s(pool[%d]=%v): ", name, vname, op, ki, keys[ki]) + fmt.Sprintf(format, x...),
				Case: map[string]any{"case_index": s, "type": name, "variant": vname}})
		}
		if churn {
			for i, k := range keys {
				m.Store(k, i+1)
				ref[k] = i + 1
			}
			order := r.Perm(len(keys))
			switch r.intn(3) {
			case 0:
				for i := range order {
					order[i] = i
				}
			case 1:
				for i := range order {
					order[i] = len(keys) - 1 - i
				}
			}
			for _, ki := range order {
				m.Delete(keys[ki])
				delete(ref, keys[ki])
				for kj, k := range keys {
					rv, rok := ref[k]
					if g, ok := m.Load(k); ok != rok || g != rv {
						bad("Load after deletes in a fully colliding chain", kj, "(%d,%v), builtin map (%d,%v) after deleting pool[%d]", g, ok, rv, rok, ki)
						break
					}
				}
				if m.Size() != len(ref) {
					bad("Size after deletes in a fully colliding chain", ki, "Size=%d, builtin map %d", m.Size(), len(ref))
				}
			}
			nops = 0
			res.count("collide_churn_sequences", 1)
		}
		for i := 0; i < nops; i++ {
			ki := r.intn(len(keys))
			if !large && r.chance(0.6) {
				ki = r.intn(len(pool))
			}
			k := keys[ki]
			v := i + 1
			op := pick(r, keyOps)
			if mutate != nil && r.chance(0.05) {
				mutate(i)
				res.count("pointee_mutations", 1)
			}
			fp.addStr(op)
			fp.add(uint64(ki))
			logCase("keys %s seq %d variant %s op %d %s pool[%d]", name, s, vname, i, op, ki)
			rv, rok := ref[k]
			if c != nil {
				switch op {
				case "Store":
					c.Set(k, v, 0)
					ref[k] = v
				case "Load":
					g, ok := c.Get(k)
					if ok != rok || g != rv {
						bad("Get", ki, "(%d,%v), builtin map (%d,%v)", g, ok, rv, rok)
					}
				case "LoadOrStore", "LoadOrCompute":
					g, ok := c.GetOrSet(k, v, 0)
					if !rok {
						ref[k], rv = v, v
					}
					if ok != rok || g != rv {
						bad("GetOrSet", ki, "(%d,%v), builtin map (%d,%v)", g, ok, rv, rok)
					}
				case "LoadAndStore", "Compute":
					g, ok := c.GetAndSet(k, v, 0)
					want := rv
					if !rok {
						want = v
					}
					ref[k] = v
					if ok != rok || g != want {
						bad("GetAndSet", ki, "(%d,%v), builtin map (%d,%v)", g, ok, want, rok)
					}
				case "LoadAndDelete":
					g, ok := c.GetAndDelete(k)
					delete(ref, k)
					if ok != rok || g != rv {
						bad("GetAndDelete", ki, "(%d,%v), builtin map (%d,%v)", g, ok, rv, rok)
					}
				case "Delete":
					c.Delete(k)
					delete(ref, k)
				}
				continue
			}
			switch op {
			case "Store":
				m.Store(k, v)
				ref[k] = v
			case "Load":
				g, ok := m.Load(k)
				if ok != rok || g != rv {
					bad(op, ki, "(%d,%v), builtin map (%d,%v)", g, ok, rv, rok)
				}
			case "LoadOrStore":
				g, ok := m.LoadOrStore(k, v)
				if !rok {
					ref[k], rv = v, v
				}
				if ok != rok || g != rv {
					bad(op, ki, "(%d,%v), builtin map (%d,%v)", g, ok, rv, rok)
				}
			case "LoadOrCompute":
				g, ok := m.LoadOrCompute(k, func() int { return v })
				if !rok {
					ref[k], rv = v, v
				}
				if ok != rok || g != rv {
					bad(op, ki, "(%d,%v), builtin map (%d,%v)", g, ok, rv, rok)
				}
			case "LoadAndStore":
				g, ok := m.LoadAndStore(k, v)
				want := rv
				if !rok {
					want = v
				}
				ref[k] = v
				if ok != rok || g != want {
					bad(op, ki, "(%d,%v), builtin map (%d,%v)", g, ok, want, rok)
				}
			case "Compute":
				var sawV int
				var sawOK bool
				m.Compute(k, func(o int, l bool) (int, bool) { sawV, sawOK = o, l; return v, false })
				ref[k] = v
				if sawOK != rok || sawV != rv {
					bad(op, ki, "valueFn saw (%d,%v), builtin map (%d,%v)", sawV, sawOK, rv, rok)
				}
			case "LoadAndDelete":
				g, ok := m.LoadAndDelete(k)
				delete(ref, k)
				if ok != rok || g != rv {
					bad(op, ki, "(%d,%v), builtin map (%d,%v)", g, ok, rv, rok)
				}
			case "Delete":
				m.Delete(k)
				delete(ref, k)
			}
		}
		// final contents
		got := map[K]int{}
		dups := 0
		visit := func(k K, v int) bool {
			if _, d := got[k]; d {
				dups++
			}
			got[k] = v
			return true
		}
		size := 0
		if c != nil {
			c.Range(visit)
			size = c.Count()
		} else {
			m.Range(visit)
			size = m.Size()
		}
		if dups > 0 || len(got) != len(ref) || size != len(ref) {
			res.violate(violation{Class: "keys", Sig: name + " key: final contents differ from builtin map",
				Msg:  fmt.Sprintf("%s %s: Range saw %d keys (%d duplicates), Size=%d, builtin map has %d", name, vname, len(got), dups, size, len(ref)),
				Case: map[string]any{"case_index": s, "type": name, "variant": vname}})
		} else {
			for k, v := range ref {
				if g, ok := got[k]; !ok || g != v {
					res.violate(violation{Class: "keys", Sig: name + " key: final contents differ from builtin map",
						Msg:  fmt.Sprintf("%s %s: key %v: Range gave (%d,%v), builtin map %d", name, vname, k, g, ok, v),
						Case: map[string]any{"case_index": s, "type": name, "variant": vname}})
					break
				}
			}
		}
		res.Evaluations++
		res.count("ops", int64(nops))
		res.count("variant:"+vname, 1)
		if m != nil {
			if st, ok := cache.VerifStats(m); ok {
				res.max("max_chain:"+name, int64(st.MaxEntries))
				res.count("growths", st.TotalGrowths)
			}
		}
		res.nontrivial(fp.sum())
	}
	res.sample(map[string]any{"type": name, "pool_size": len(pool), "equal_pairs": eq, "pool": fmt.Sprintf("%v", pool)})
}

func runKeys(a *args, res *result) {
	res.Rule = "one process per key type; sequence = PRNG calls of every MapOf/CacheOf method on keys drawn from a pool containing equal-but-differently-represented and similar-but-different values (and 3000 generated keys every 8th sequence), under the default hasher, presized tables, a constant hasher and a 3-valued hasher, with memory the keys point to mutated in between; every result and the final Range/Size compared with a builtin map[K]int; distinct = hash of (type, variant, op/key sequence); every sequence is non-trivial (pools always contain equal and colliding keys)"
	cat := append(keyCatalogue(), sameNameTypes())
	if a.extra == "list" {
		for _, k := range cat {
			fmt.Println(k.name)
		}
		return
	}
	names := []string{}
	for _, k := range cat {
		names = append(names, k.name)
		if k.name == a.extra {
			k.run(a, res)
			return
		}
	}
	sort.Strings(names)
	panic(fmt.Sprintf("keys: unknown type %q (have %v)", a.extra, names))
}
