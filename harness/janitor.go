package main

import (
	"fmt"
	"runtime"
	"strings"
	"sync/atomic"
	"time"

	cache "github.com/fufuok/cache"
	"github.com/fufuok/cache/zzverif/vshim"
)

func init() { engines["janitor"] = runJanitor }

// C15: the janitor cleans up on its own, only when configured, and dies with
// the cache. Everything is decided in logical time: fake tickers registered by
// the shim, ticks delivered by the harness, "the pass has finished" derived
// from the ticker channel (capacity 1: when the k-th tick is accepted the
// janitor has received tick k-1, i.e. finished the pass of tick k-2), and the
// lifetime clause in GC cycles.

const maxYield = 1 << 22

// The janitor's time source is whatever the library registered with the shim
// since the last ResetTickers: a ticker, or a timer / time.After channel that is
// re-armed or replaced for every pass. "Armed" sources can still deliver a tick.
func armedSources() []*vshim.FakeTicker {
	var out []*vshim.FakeTicker
	for _, t := range vshim.Tickers() {
		if t.Armed() {
			out = append(out, t)
		}
	}
	return out
}

func waitTicker(n int) []*vshim.FakeTicker {
	for i := 0; i < maxYield; i++ {
		if t := armedSources(); len(t) >= n {
			return t
		}
		runtime.Gosched()
	}
	return armedSources()
}

// janFire delivers one tick to every armed source (waiting until each has room
// for it) and reports whether at least one was delivered.
func janFire(maxY int) bool {
	src := waitTickerY(1, maxY)
	if len(src) == 0 {
		return false
	}
	for _, s := range src {
		if !s.FireWait(maxY) {
			return false
		}
	}
	return true
}

// waitRegistered waits for n time sources registered since ResetTickers, armed or not.
func waitRegistered(n int) []*vshim.FakeTicker {
	for i := 0; i < maxYield; i++ {
		if t := vshim.Tickers(); len(t) >= n {
			return t
		}
		runtime.Gosched()
	}
	return vshim.Tickers()
}

func waitTickerY(n, maxY int) []*vshim.FakeTicker {
	for i := 0; i < maxY; i++ {
		if t := armedSources(); len(t) >= n {
			return t
		}
		runtime.Gosched()
	}
	return armedSources()
}

// janDeliver = janFire, and for one-shot sources wait until the janitor has come
// back to wait (a source is armed again).
func janDeliver(maxY int) bool {
	src := waitTickerY(1, maxY)
	if len(src) == 0 {
		return false
	}
	oneShots := 0
	for _, s := range src {
		if !s.FireWait(maxY) {
			return false
		}
		if s.IsOneShot() {
			oneShots++
		}
	}
	if oneShots > 0 {
		return len(waitTickerY(len(src), maxY)) >= len(src)
	}
	return true
}

// janTickFlush delivers a tick and two more "flush" ticks at the same instant.
// A ticker channel has capacity 1: when the third tick is accepted the janitor
// has received the second, i.e. finished the pass of the first. A timer-driven
// janitor re-arms once per loop iteration: when it has re-armed for the second
// time, the pass of the first tick is complete whichever way round it re-arms
// and sweeps.
func janTickFlush(maxY int) bool {
	return janDeliver(maxY) && janDeliver(maxY) && janDeliver(maxY)
}

// libGoroutinesIdle: every goroutine the library itself started (its "created by"
// line names a function of the library package) is parked - i.e. a janitor is back
// in its wait, not inside a pass, and so are any helpers it may have.
// Decided from runtime.Stack, so it does not depend on how the janitor is written.
func libGoroutinesIdle() bool {
	buf := make([]byte, 1<<20)
	for {
		n := runtime.Stack(buf, true)
		if n < len(buf) {
			buf = buf[:n]
			break
		}
		buf = make([]byte, 2*len(buf))
	}
	for _, g := range strings.Split(string(buf), "\n\n") {
		i := strings.Index(g, "created by github.com/fufuok/cache.")
		if i < 0 || strings.Contains(g[i:], "/zzverif/") {
			continue
		}
		hdr := g
		if j := strings.IndexByte(g, '\n'); j >= 0 {
			hdr = g[:j]
		}
		a, b := strings.IndexByte(hdr, '['), strings.IndexByte(hdr, ']')
		if a < 0 || b < a {
			return false
		}
		state := hdr[a+1 : b]
		if k := strings.IndexByte(state, ','); k >= 0 {
			state = state[:k]
		}
		// anything but a runnable / running / transient runtime state counts as parked:
		// when every library goroutine is parked (select, channel operation, sleep,
		// condition or mutex wait ...) nothing moves until the harness does something
		if strings.HasPrefix(state, "run") || state == "syscall" || strings.Contains(state, "GC") ||
			state == "preempted" || state == "copystack" || state == "waiting" {
			return false
		}
	}
	return true
}

// janQuiesce waits (bounded yields) until no delivered tick is pending and every
// library goroutine is back in its wait: the passes triggered so far are complete.
func janQuiesce(maxY int) bool {
	for i := 0; i < maxY; i++ {
		pending := false
		for _, t := range vshim.Tickers() {
			if t.Armed() && t.Pending() {
				pending = true
			}
		}
		if !pending && libGoroutinesIdle() {
			return true
		}
		for y := 0; y < 50; y++ {
			runtime.Gosched()
		}
	}
	return false
}

// janAdvanceTo moves the virtual clock to now and delivers a tick to every armed
// source that is DUE at that instant (a ticker whose period the janitor has
// stretched with Reset, or a timer it has not re-armed, gets none), then waits for
// the pass to complete. delivered reports how many ticks went out; ok is false
// if a due tick was not accepted or the janitor did not come back to its wait.
func janAdvanceTo(now int64, maxY int) (delivered int, ok bool) {
	return janAdvance(now, maxY, false)
}

// janAdvance with burst=true additionally offers every source that was due two
// more ticks at the same instant, without waiting for the pass to end: the next
// tick is then already pending while a pass runs - the situation of a sweep that
// takes longer than an interval.
func janAdvance(now int64, maxY int, burst bool) (delivered int, ok bool) {
	vshim.SetVNow(now)
	for round := 0; round < 4; round++ {
		n := 0
		for _, s := range armedSources() {
			due, sent := s.FireDue(now, maxY)
			if due && !sent {
				return delivered, false
			}
			if sent {
				n++
				if burst && !s.IsOneShot() {
					s.FireWait(maxY)
					s.FireWait(maxY)
				}
			}
		}
		delivered += n
		if !janQuiesce(maxY / 64) {
			return delivered, false
		}
		if n == 0 {
			break
		}
	}
	return delivered, true
}

// janFireNoWait offers one tick to every armed source without waiting.
func janFireNoWait() int {
	n := 0
	for _, s := range armedSources() {
		if s.Fire() {
			n++
		}
	}
	return n
}

// settle gives goroutines that would create a ticker the chance to do so
func settle() {
	for i := 0; i < 2000; i++ {
		runtime.Gosched()
	}
}

type janCase struct {
	sp       cacheSpec
	interval time.Duration // effective
	desc     string
}

var intervalCatalogue = []time.Duration{-5 * time.Second, -1, 0, 1, time.Millisecond, 10 * time.Second}

func janitorCases() []janCase {
	var out []janCase
	for _, fl := range cacheFlavors {
		for _, iv := range intervalCatalogue {
			for _, cb := range []bool{false, true} {
				for _, ctor := range []string{"New", "NewDefault"} {
					sp := cacheSpec{Flavor: fl, Ctor: ctor, DefExp: time.Hour, Interval: iv, OptMask: 1 | 2}
					if cb {
						sp.OptMask |= 4
						sp.Callback = func(int, any) {}
					}
					out = append(out, janCase{sp, iv, fmt.Sprintf("%s %s interval=%d cb=%v", fl, ctor, iv, cb)})
				}
			}
		}
		// constructor forms that leave the interval at its default (10s)
		out = append(out, janCase{cacheSpec{Flavor: fl, Ctor: "NewBare"}, cache.DefaultCleanupInterval, fl + " New() default interval"})
		out = append(out, janCase{cacheSpec{Flavor: fl, Ctor: "New", OptMask: 1, DefExp: time.Minute}, cache.DefaultCleanupInterval, fl + " New(WithDefaultExpiration) default interval"})
	}
	return out
}

func runJanitor(a *args, res *result) {
	res.Rule = "case = (cache flavour, constructor form, cleanup interval in {-5s,-1ns,0,1ns,1ms,10s,default}, callback or not) x PRNG TTL/tick schedule: number and period of tickers registered; with a positive interval entries are stored, the clock advanced tick by tick with NO user call, and after the pass of the first tick later than an entry's expiry Count must have dropped by exactly the expired entries with one callback each; with interval <= 0 nothing is removed until Get/DeleteExpired; lifetime: N caches dropped, goroutines / tickers / 1 MiB sentinels must be released within 50 GC cycles, a cache still referenced keeps its janitor; non-trivial = cases that delivered ticks or dropped caches; distinct = (case, schedule) hash; the constructor x interval table is enumerated completely"
	vshim.SetVirtual(true)
	cases := janitorCases()
	reps := a.n
	idx := int64(0)
	for rep := int64(0); rep < reps; rep++ {
		for ci, jc := range cases {
			idx++
			if !a.mine(idx - 1) {
				continue
			}
			r := newRng(a.seed, uint64(idx)*8+1)
			logCase("janitor case %d rep %d: %s", ci, rep, jc.desc)
			runJanitorCase(res, r, jc, idx-1)
		}
	}
	res.count("constructor_interval_cells", int64(len(cases)))
	// ---- a write that lands while a janitor pass is in flight
	for fi, fl := range cacheFlavors {
		if !a.mine(int64(fi)) {
			continue
		}
		janitorPair(res, fl)
	}
	// ---- a ticker that is faster than the sweep: the next tick is always pending
	for fi, fl := range cacheFlavors {
		if !a.mine(int64(fi) + 1) {
			continue
		}
		fastTicker(res, fl)
	}
	// ---- lifetime rounds
	for i := int64(0); i < a.n2; i++ {
		if !a.mine(i) {
			continue
		}
		r := newRng(a.seed, uint64(i)*8+3)
		logCase("janitor lifetime round %d", i)
		runLifetime(res, r, i)
	}
	res.Exhaustive = true
}

func runJanitorCase(res *result, r rng, jc janCase, idx int64) {
	vshim.SetVNow(epoch)
	vshim.ResetTickers()
	led := &ledger{}
	sp := jc.sp
	sp.NKeys = 256
	if sp.Callback != nil {
		sp.Callback = led.cb(1)
	}
	res.Evaluations++
	c := newCache(sp)
	bad := func(sig, msg string) {
		res.violate(violation{Class: "janitor", Sig: sig, Msg: jc.desc + ": " + msg, Case: map[string]any{"case_index": idx, "desc": jc.desc}})
	}
	fp := newFP()
	fp.addStr(jc.desc)
	if jc.interval > 0 {
		// entries with TTLs spread over several intervals; nobody touches a key afterwards.
		// They are stored before the janitor's time source is looked for (a janitor may be
		// started lazily by the first write) and through one of the storing calls per case.
		writeWith := r.intn(6)
		type ent struct {
			k int
			v any
			e int64
		}
		var ents []ent
		n := r.between(3, 40)
		for k := 0; k < n; k++ {
			v := nextVal(k)
			var d time.Duration
			switch r.intn(4) {
			case 0:
				d = cache.NoExpiration
			case 1:
				d = jc.interval*time.Duration(r.between(0, 4)) + time.Duration(r.between(1, 1000))
				if jc.interval == 1 {
					d = time.Duration(r.between(1, 6))
				}
			case 2:
				d = time.Duration(r.between(1, 3))
			default:
				d = jc.interval * 100
			}
			if k == 0 {
				d = jc.interval*2 + 5 // at least one entry that can expire (a janitor may be started on demand)
			}
			switch writeWith {
			case 1:
				c.GetOrSet(k, v, d)
			case 2:
				c.GetAndSet(k, v, d)
			case 3:
				c.GetOrCompute(k, func() any { return v }, d)
			case 4:
				c.Compute(k, func(any, bool) (any, bool) { return v, false }, d)
			default:
				c.Set(k, v, d)
			}
			e := int64(0)
			if d > 0 {
				e = epoch + int64(d)
			}
			ents = append(ents, ent{k, v, e})
		}
		tks := waitTicker(1)
		if len(tks) != 1 {
			bad("no janitor although the cleanup interval is positive", fmt.Sprintf("%d tickers registered", len(tks)))
			return
		}
		settle()
		if tks = armedSources(); len(tks) != 1 {
			bad("more than one janitor ticker", fmt.Sprintf("%d tickers registered", len(tks)))
			return
		}
		tk := tks[0]
		if tk.Period != jc.interval {
			bad("janitor ticker period differs from the cleanup interval", fmt.Sprintf("period %d, interval %d", tk.Period, jc.interval))
		}
		// the callback in force may be swapped after construction: the janitor must use the current one
		curID := 0
		if jc.sp.Callback != nil {
			curID = 1
		}
		switch r.intn(4) {
		case 0:
			c.SetEvictedCallback(led.cb(2))
			curID = 2
		case 1:
			c.SetEvictedCallback(nil)
			curID = 0
		}
		removed := map[int]bool{}
		ticks := r.between(3, 8)
		burst := r.chance(0.5) // half of the cases: further ticks are pending while a pass runs
		now := epoch
		for t := 1; t <= ticks; t++ {
			now += int64(jc.interval)
			vshim.SetVNow(now)
			// deliver tick t, then two more "flush" ticks at the same instant: when the
			// third is accepted, the pass triggered by the first has completed
			nd, ok := janAdvance(now, maxYield, burst)
			if !ok {
				bad("janitor does not consume ticks", fmt.Sprintf("tick %d at +%d: a due tick was not accepted or the pass did not complete within %d yields", t, now-epoch, maxYield))
				return
			}
			res.count("ticks_delivered", int64(nd))
			fp.add(uint64(t), uint64(now-epoch))
			// bounded cleanup: everything that expired strictly before this tick must be
			// gone after at most 2 further intervals (we allow until the pass of tick t+2)
			want := 0
			for _, e := range ents {
				if e.e == 0 || e.e >= now {
					want++
				}
			}
			cnt := c.Count()
			expiredLongAgo := 0
			for _, e := range ents {
				if e.e != 0 && e.e < now-2*int64(jc.interval) {
					expiredLongAgo++
				}
			}
			if cnt < want {
				bad("janitor removed an unexpired entry", fmt.Sprintf("after tick %d Count()=%d, %d entries are unexpired", t, cnt, want))
			}
			if cnt > len(ents)-expiredLongAgo {
				bad("expired entries not removed within two cleanup intervals", fmt.Sprintf("after tick %d (+%d) Count()=%d, %d of %d entries expired more than two intervals ago", t, now-epoch, cnt, expiredLongAgo, len(ents)))
			}
			_ = removed
		}
		// final: exactly the unexpired remain (all expiries are far from `now` or in the past by > 0)
		vshim.SetVNow(now + int64(jc.interval))
		now += int64(jc.interval)
		janAdvanceTo(now, maxYield)
		want := 0
		wantCb := map[any]int{}
		for _, e := range ents {
			if e.e == 0 || e.e >= now {
				want++
			} else if e.e < now-int64(jc.interval) {
				wantCb[e.v] = e.k
			}
		}
		if curID == 0 {
			led.mu.Lock()
			n := len(led.entries)
			led.mu.Unlock()
			if n != 0 {
				bad("janitor fires a callback although none is in force", fmt.Sprintf("%d callbacks after SetEvictedCallback(nil) / without callback", n))
			}
		} else {
			led.mu.Lock()
			got := map[any]int{}
			for _, le := range led.entries {
				got[le.V]++
				if le.CbID != curID {
					bad("janitor fires a callback that is not the one in force", fmt.Sprintf("callback #%d fired, #%d is in force (set with SetEvictedCallback)", le.CbID, curID))
				}
				if k, ok := wantCb[le.V]; ok && k != le.K {
					bad("janitor callback pairs a value with another key", fmt.Sprintf("(k%d,%s)", le.K, fmtVal(le.V)))
				}
			}
			led.mu.Unlock()
			for v := range wantCb {
				if got[v] != 1 {
					bad("janitor removal without exactly one evicted callback", fmt.Sprintf("entry %s removed by the janitor: %d callbacks", fmtVal(v), got[v]))
					break
				}
			}
			res.count("callbacks_from_janitor", int64(len(got)))
		}
		res.count("entries_evicted_by_janitor", int64(len(ents)-c.Count()))
		res.nontrivial(fp.sum())
		if res.Evaluations <= 3 {
			res.sample(map[string]any{"case": jc.desc, "entries": n, "ticks": ticks, "count_after": c.Count(), "unexpired": want})
		}
		runtime.KeepAlive(c)
		return
	}
	// ---- interval <= 0: no janitor, nothing is removed until an access or DeleteExpired
	settle()
	if tks := vshim.Tickers(); len(tks) != 0 {
		bad("janitor started although the cleanup interval is <= 0", fmt.Sprintf("%d tickers registered (period %d)", len(tks), tks[0].Period))
	}
	n := r.between(2, 30)
	for k := 0; k < n; k++ {
		c.Set(k, nextVal(k), time.Duration(r.between(1, 100)))
	}
	vshim.SetVNow(epoch + int64(time.Hour))
	settle()
	if tks := vshim.Tickers(); len(tks) != 0 {
		bad("janitor started although the cleanup interval is <= 0", fmt.Sprintf("%d tickers registered after the first writes (period %d)", len(tks), tks[0].Period))
	}
	if cnt := c.Count(); cnt != n {
		bad("entries removed without janitor and without any access", fmt.Sprintf("Count()=%d, stored %d", cnt, n))
	}
	led.mu.Lock()
	ncb := len(led.entries)
	led.mu.Unlock()
	if ncb != 0 {
		bad("callbacks fired without janitor and without any access", fmt.Sprintf("%d callbacks", ncb))
	}
	if _, ok := c.Get(0); ok {
		bad("expired entry returned", "Get(k0) after 1h")
	}
	if cnt := c.Count(); cnt != n-1 && cnt != n {
		bad("a read removed more than the entry it touched", fmt.Sprintf("Count()=%d after one Get, stored %d", cnt, n))
	}
	c.DeleteExpired()
	if cnt := c.Count(); cnt != 0 {
		bad("DeleteExpired left expired entries", fmt.Sprintf("Count()=%d", cnt))
	}
	fp.add(uint64(n))
	res.nontrivial(fp.sum())
}

type sentinel struct {
	buf []byte
}

var sentinelsFreed int64

func runLifetime(res *result, r rng, idx int64) {
	vshim.SetVNow(epoch)
	vshim.ResetTickers()
	res.Evaluations++
	bad := func(sig, msg string) {
		res.violate(violation{Class: "janitor", Sig: sig, Msg: msg, Case: map[string]any{"case_index": idx}})
	}
	// let janitors of caches dropped by earlier cases exit first
	base := runtime.NumGoroutine()
	for i := 0; i < 20; i++ {
		runtime.GC()
		settle()
		if g := runtime.NumGoroutine(); g == base && i >= 2 {
			break
		} else {
			base = g
		}
	}
	n := pick(r, []int{1, 10, 100})
	interval := pick(r, []time.Duration{time.Millisecond, 10 * time.Second, time.Millisecond})
	// active rounds: the janitors are busy sweeping (the clock ticks and ticks are
	// delivered) WHILE their caches are dropped and collected
	active := r.chance(0.5)
	withCb := active || r.chance(0.5)
	flavor := pick(r, []string{"Cache", "CacheOf[string,any]"})
	// goroutines the library runs per cache (one janitor; an implementation may add
	// helpers): measured on a probe cache that stays referenced during the round
	probeSp := cacheSpec{Flavor: flavor, Ctor: "New", OptMask: 1 | 2, DefExp: time.Hour, Interval: interval, NKeys: 8}
	if withCb {
		probeSp.OptMask |= 4
		probeSp.Callback = func(int, any) {}
	}
	probe := newCache(probeSp)
	probe.Set(0, nextVal(0), time.Hour)
	waitRegistered(1)
	settle()
	perCache := runtime.NumGoroutine() - base
	if perCache < 1 {
		perCache = 1
	}
	base += perCache
	defer runtime.KeepAlive(probe)
	vshim.ResetTickers()
	freed0 := atomic.LoadInt64(&sentinelsFreed)
	nsent := 0
	var keep cacheAPI
	func() {
		for i := 0; i < n; i++ {
			sp := cacheSpec{Flavor: flavor, Ctor: pick(r, []string{"New", "NewDefault"}), OptMask: 1 | 2, DefExp: time.Hour, Interval: interval, NKeys: 8}
			if withCb {
				sp.OptMask |= 4
				sp.Callback = func(int, any) {}
			}
			c := newCache(sp)
			for k := 0; k < 3; k++ {
				s := &sentinel{buf: make([]byte, 1<<18)}
				runtime.SetFinalizer(s, func(*sentinel) { atomic.AddInt64(&sentinelsFreed, 1) })
				ttl := pick(r, []time.Duration{time.Hour, 1, cache.NoExpiration})
				if k == 0 {
					ttl = time.Hour // at least one entry that can expire
				}
				c.Set(k, s, ttl)
				nsent++
			}
			if active {
				// staggered TTLs: while the clock ticks, every pass has something to evict
				for k := 3; k < 8; k++ {
					c.Set(k, nextVal(k), time.Duration(k-2)*3)
				}
			}
			if i == 0 {
				keep = c // negative control: stays referenced
			}
		}
	}()
	tks := waitRegistered(n)
	if len(tks) != n {
		bad("janitor count differs from caches created with a positive interval", fmt.Sprintf("%d caches, %d tickers", n, len(tks)))
		return
	}
	// drop everything except `keep`; bounded number of GC cycles
	okAll := false
	cycles := 0
	for cycles = 1; cycles <= 50; cycles++ {
		if active && cycles <= 16 {
			vshim.AdvanceQuiet(1)
			janFireNoWait()
			for y := 0; y < r.intn(200); y++ {
				runtime.Gosched()
			}
		}
		runtime.GC()
		if active && cycles <= 16 {
			// finalizers are running now: a janitor may find a tick AND its stop signal ready
			for y := 0; y < 20; y++ {
				vshim.AdvanceQuiet(1)
				janFireNoWait()
				runtime.Gosched()
			}
		}
		settle()
		stopped := 0
		for _, t := range tks {
			if t.Stopped() || t.IsOneShot() {
				stopped++
			}
		}
		if stopped >= n-1 && runtime.NumGoroutine() <= base+perCache && atomic.LoadInt64(&sentinelsFreed)-freed0 >= int64(nsent-3) {
			okAll = true
			break
		}
	}
	res.count("caches_dropped", int64(n-1))
	res.max("max_gc_cycles_until_released", int64(cycles))
	stopped, periodic := 0, true
	for _, t := range tks {
		if t.IsOneShot() {
			periodic = false // a timer that is never stopped is not a leak; goroutines and memory decide
		}
		if t.Stopped() {
			stopped++
		}
	}
	if !okAll {
		bad("dropped caches are not released within 50 GC cycles", fmt.Sprintf("%d caches dropped: %d tickers stopped, goroutines %d (baseline %d), sentinels freed %d of %d", n-1, stopped, runtime.NumGoroutine(), base, atomic.LoadInt64(&sentinelsFreed)-freed0, nsent-3))
	} else {
		res.count("janitors_observed_to_exit", int64(stopped))
	}
	// the cache that is still referenced keeps its janitor and its contents
	if periodic && stopped > n-1 {
		bad("janitor of a cache that is still referenced was stopped", fmt.Sprintf("%d of %d tickers stopped while one cache is alive", stopped, n))
	}
	if !active && keep.Count() != 3 {
		bad("contents of a live cache changed", fmt.Sprintf("Count()=%d", keep.Count()))
	}
	fp := newFP()
	fp.add(uint64(n), uint64(interval), uint64(idx))
	res.nontrivial(fp.sum())
	runtime.KeepAlive(keep)
	keep = nil
	for i := 0; i < 4; i++ {
		runtime.GC()
		settle()
	}
}

// janitorPair: the janitor's pass is suspended at each of its shim steps, a new
// entry with a short TTL is stored meanwhile, the pass is resumed, and then time
// goes on: the new entry must be cleaned up by the janitor within the next two
// intervals and reported once, with no user call - whatever the pass that was in
// flight concluded about "is there anything left to clean".
func janitorPair(res *result, flavor string) {
	interval := time.Millisecond
	setup := func() (cacheAPI, *vshim.FakeTicker, *ledger) {
		vshim.SetVNow(epoch)
		vshim.ResetTickers()
		led := &ledger{}
		c := newCache(cacheSpec{Flavor: flavor, Ctor: "New", OptMask: 1 | 2 | 4, DefExp: time.Hour, Interval: interval, NKeys: 64, Callback: led.cb(1)})
		for k := 10; k < 14; k++ {
			c.SetForever(k, nextVal(k))
		}
		c.Set(1, nextVal(1), 5) // something for the pass to remove
		tks := waitTicker(1)
		if len(tks) != 1 {
			return c, nil, led
		}
		return c, tks[0], led
	}
	pollToken := func() *vshim.ParkToken {
		for i := 0; i < 1<<21; i++ {
			select {
			case t := <-vshim.ParkedTokens():
				return t
			default:
				runtime.Gosched()
			}
		}
		return nil
	}
	// calibration: how many shim steps does one pass take
	c0, tk0, _ := setup()
	if tk0 == nil {
		return
	}
	vshim.SetTokenMode(true)
	vshim.ResetGStep()
	vshim.SetMode(vshim.MGlobal | vshim.MCount | vshim.MPoll)
	vshim.SetVNow(epoch + int64(interval))
	okc := janTickFlush(maxYield)
	L := vshim.GStep()
	vshim.SetMode(0)
	runtime.KeepAlive(c0)
	if !okc || L <= 0 {
		return
	}
	res.max("janitor_pass_steps", L)
	noPark := 0
	for N := int64(1); N <= L && noPark < 3; N++ {
		c, tk, led := setup()
		if tk == nil {
			return
		}
		logCase("janitor pair %s N=%d of %d", flavor, N, L)
		res.Evaluations++
		vshim.ResetGStep()
		vshim.SetMode(vshim.MGlobal | vshim.MCount | vshim.MPoll)
		now := epoch + int64(interval)
		vshim.SetVNow(now)
		vshim.ArmPark(N)
		if !janFire(maxYield) {
			vshim.ArmPark(0)
			vshim.SetMode(0)
			continue
		}
		tok := pollToken()
		vshim.ArmPark(0)
		v9 := nextVal(9)
		// expires 3 ns from now; nobody will touch it again. The pass may be parked while it
		// holds the bucket this Set needs: then the pass is resumed first.
		setDone := make(chan struct{})
		vshim.ArmSpinNotify()
		go func() { c.Set(9, v9, 3); close(setDone) }()
		select {
		case <-setDone:
		case <-vshim.SpinNotified():
		}
		vshim.DisarmSpinNotify()
		if tok == nil {
			noPark++
		} else {
			noPark = 0
		}
		if tok != nil {
			tok.Resume()
			res.count("janitor_parked_scenarios", 1)
			fp := newFP()
			fp.addStr("janitor-pair" + flavor)
			fp.add(uint64(N))
			res.nontrivial(fp.sum())
		}
		<-setDone
		// time goes on: three more intervals, each pass flushed
		ok := true
		for t := 0; t < 3 && ok; t++ {
			now += int64(interval)
			_, ok = janAdvanceTo(now, maxYield)
		}
		vshim.SetMode(0)
		bad := func(sig, msg string) {
			res.violate(violation{Class: "janitor", Sig: sig, Msg: fmt.Sprintf("%s, janitor pass suspended at its step %d of %d while Set(k9, ttl 3ns) ran: %s", flavor, N, L, msg), Case: map[string]any{"flavor": flavor, "N": N}})
		}
		if !ok {
			bad("janitor does not consume ticks", "a tick was not accepted")
			return
		}
		led.mu.Lock()
		n9 := 0
		for _, e := range led.entries {
			if e.V == any(v9) {
				n9++
			}
		}
		led.mu.Unlock()
		if cnt := c.Count(); cnt != 4 || n9 != 1 {
			bad("an entry stored while a janitor pass was in flight is never cleaned up by the janitor", fmt.Sprintf("three intervals later Count()=%d (4 permanent entries), evicted callback for it fired %d times", cnt, n9))
			return
		}
		runtime.KeepAlive(c)
	}
	vshim.SetTokenMode(false)
}

// fastTicker: ticks are delivered back to back, each one interval of virtual time
// after the previous, as soon as the janitor has room for it - a sweep that is
// slower than its ticker. Cleanup must still be bounded: when tick t has been
// accepted, tick t-1 has been taken, so the pass of tick t-2 is complete (or was
// merged into a later one); everything that expired before tick t-4 must be gone.
func fastTicker(res *result, flavor string) {
	interval := time.Millisecond
	vshim.SetVNow(epoch)
	vshim.ResetTickers()
	led := &ledger{}
	c := newCache(cacheSpec{Flavor: flavor, Ctor: "New", OptMask: 1 | 2 | 4, DefExp: time.Hour, Interval: interval, NKeys: 256, Callback: led.cb(1)})
	const n = 60
	exp := make([]int64, n)
	for k := 0; k < n; k++ {
		d := interval*time.Duration(k%20+1) + time.Duration(k)
		c.Set(k, nextVal(k), d)
		exp[k] = epoch + int64(d)
	}
	if len(waitTicker(1)) != 1 {
		return
	}
	logCase("janitor fast-ticker %s", flavor)
	res.Evaluations++
	fp := newFP()
	fp.addStr("fast-ticker" + flavor)
	res.nontrivial(fp.sum())
	now := int64(epoch)
	for t := 1; t <= 60; t++ {
		now += int64(interval)
		vshim.SetVNow(now)
		if !janDeliver(maxYield) {
			res.violate(violation{Class: "janitor", Sig: "janitor does not consume ticks", Msg: fmt.Sprintf("%s: back-to-back tick %d not accepted", flavor, t), Case: map[string]any{"flavor": flavor, "tick": t}})
			return
		}
		res.count("fast_ticks_delivered", 1)
		if t < 6 {
			continue
		}
		limit := now - 4*int64(interval)
		overdue := 0
		for k := 0; k < n; k++ {
			if exp[k] < limit {
				overdue++
			}
		}
		if cnt := c.Count(); cnt > n-overdue {
			res.violate(violation{Class: "janitor", Sig: "expired entries are not removed while ticks arrive faster than the sweep", Msg: fmt.Sprintf("%s: tick %d accepted (ticks delivered back to back, one interval of virtual time apart): Count()=%d, %d of %d entries expired more than four intervals ago", flavor, t, cnt, overdue, n), Case: map[string]any{"flavor": flavor, "tick": t}})
			return
		}
	}
	janQuiesce(1 << 14)
	runtime.KeepAlive(c)
}
