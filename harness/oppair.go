package main

import (
	"fmt"
	"time"

	cache "github.com/fufuok/cache"
	"github.com/fufuok/cache/zzverif/vshim"
)

func init() { engines["oppair"] = runOpPair }

// Same-key operation pairs, enumerated. For every ordered pair (A, B) of API
// calls on ONE key, every start state of that key (absent, present; for caches
// also expired-but-uncleaned) and every shim step N of A: A is parked at its
// step N, B runs (to completion, or until it blocks on something A holds, in
// which case A is resumed first), A is resumed, both return, the key is read.
// The recorded three-call history (plus the calls that set up the state) is
// then checked for linearizability against the sequential model - with two
// overlapping calls this is exact and cheap. This is the deterministic
// counterpart of the random rounds of linzmap / linzcache for the smallest
// interleavings: a re-check dropped under a lock, a stale snapshot written back,
// a decision taken outside the lock all show up at some N.

type pairOp struct {
	name string
	w    wop
}

func mapPairOps() []pairOp {
	return []pairOp{
		{"Load", wop{kind: oLoad}},
		{"Store", wop{kind: oStore}},
		{"LoadOrStore", wop{kind: oLoadOrStore}},
		{"LoadAndStore", wop{kind: oLoadAndStore}},
		{"LoadOrCompute", wop{kind: oLoadOrCompute}},
		{"Compute/set", wop{kind: oCompute, fn: fnSet}},
		{"Compute/del", wop{kind: oCompute, fn: fnDel}},
		{"Compute/cond", wop{kind: oCompute, fn: fnCond}},
		{"LoadAndDelete", wop{kind: oLoadAndDelete}},
		{"Delete", wop{kind: oDelete}},
		{"Clear", wop{kind: oClear}},
	}
}

func cachePairOps() []pairOp {
	return []pairOp{
		{"Get", wop{kind: cGet}},
		{"GetWithExpiration", wop{kind: cGetWithExpiration}},
		{"GetWithTTL", wop{kind: cGetWithTTL}},
		{"Set/1h", wop{kind: cSet, d: time.Hour}},
		{"Set/never", wop{kind: cSet, d: cache.NoExpiration}},
		{"Set/default", wop{kind: cSet, d: cache.DefaultExpiration}},
		{"GetOrSet", wop{kind: cGetOrSet, d: time.Hour}},
		{"GetAndSet", wop{kind: cGetAndSet, d: cache.NoExpiration}},
		{"GetAndRefresh", wop{kind: cGetAndRefresh, d: 2 * time.Hour}},
		{"GetOrCompute", wop{kind: cGetOrCompute, d: time.Hour}},
		{"Compute/set", wop{kind: cCompute, fn: fnSet, d: time.Hour}},
		{"Compute/del", wop{kind: cCompute, fn: fnDel}},
		{"Compute/cond", wop{kind: cCompute, fn: fnCond, d: time.Minute}},
		{"GetAndDelete", wop{kind: cGetAndDelete}},
		{"Delete", wop{kind: cDelete}},
		{"DeleteExpired", wop{kind: cDeleteExpired}},
		{"Clear", wop{kind: cClear}},
	}
}

const opKey = 5

func runOpPair(a *args, res *result) {
	res.Rule = "scenario = (container kind, start state of the key, first call A, second call B, stall point N of A): A parked at its shim step N, B runs (or blocks on A, then A is resumed first), A resumed, final read; the recorded history is checked with porcupine against the sequential model; N enumerated until A completes without parking; every ordered pair of the API's single-key calls (and Clear / DeleteExpired) is covered; non-trivial = A was really parked mid-call; distinct = (kind, state, A, B, N)"
	vshim.SetVirtual(true)
	stuckCh := make(chan string, 2)
	vshim.OnStuck = func(reason string) {
		stuckCh <- reason
		select {}
	}
	mapKinds := []string{"Map", "MapOf[int,val]", "MapOf[string,val]/const"}
	cacheKinds := []string{"Cache", "CacheOf[int,val]", "CacheOf[string,any]"}
	switch a.prop {
	case "C03":
		cacheKinds = nil
		mapKinds = []string{"Map"}
	case "C04", "C10":
		cacheKinds = nil
		mapKinds = []string{"MapOf[int,val]", "MapOf[string,val]/const", "MapOf[skey,val]/sameh1"}
	case "C01", "C02", "C09", "C06", "C08", "C07":
		mapKinds = nil
	case "C12":
		mapKinds = []string{"Map", "MapOf[string,any]"}
		cacheKinds = []string{"Cache", "CacheOf[string,any]"}
	}
	unit := int64(0)
	for _, kind := range mapKinds {
		for _, st := range []string{"absent", "present"} {
			for _, A := range mapPairOps() {
				unit++
				if !a.mine(unit - 1) {
					continue
				}
				for _, B := range mapPairOps() {
					opPairMap(res, kind, st, A, B, stuckCh)
					if st == "absent" && indexByte(kind, '/') >= 0 && insertsAbsent(A.w.kind) && insertsAbsent(B.w.kind) {
						opPairGrowDue(res, kind, A, B, stuckCh)
					}
				}
			}
		}
	}
	for _, kind := range cacheKinds {
		if a.prop == "C08" {
			break // only the sweep-overlap scenarios below
		}
		for _, st := range []string{"absent", "live", "expired"} {
			for _, A := range cachePairOps() {
				unit++
				if !a.mine(unit - 1) {
					continue
				}
				for _, B := range cachePairOps() {
					opPairCache(res, kind, st, A, B, stuckCh)
				}
			}
		}
	}
	for _, kind := range cacheKinds {
		unit++
		if !a.mine(unit - 1) {
			continue
		}
		sweepOverlap(res, kind, stuckCh)
		sweepVsRefresh(res, kind, stuckCh)
		if a.prop != "C08" {
			tripleSweep(res, kind, stuckCh)
			configPair(res, kind, stuckCh)
			tickClock(res, kind, stuckCh)
			refreshOnEvict(res, kind)
		}
	}
	// ---- a traversal, a writer parked inside its bucket and a Clear in between
	if a.prop == "C07" || a.prop == "C03" || a.prop == "C04" || a.prop == "C13" {
		tk := []string{"Map", "MapOf[int,val]", "MapOf[string,val]/const"}
		if a.prop == "C03" {
			tk = tk[:1]
		} else if a.prop == "C04" {
			tk = tk[1:]
		}
		for _, kind := range tk {
			for _, w := range []string{"delete", "update"} {
				unit++
				if !a.mine(unit - 1) {
					continue
				}
				traverseVsClear(res, kind, w, stuckCh)
			}
		}
	}
	vshim.SetTokenMode(false)
	res.sample(map[string]any{"map_kinds": mapKinds, "cache_kinds": cacheKinds, "map_ops": len(mapPairOps()), "cache_ops": len(cachePairOps())})
}

// runPair drives the schedule; execA / execB perform and record the calls.
// longWait: once per (kind, state, A, B) the second call is left waiting for the parked
// first call some 80000 spins instead of 2048 before the first call is resumed - a
// wait that gives up (or goes ahead) after a bounded number of attempts shows then.
var longWaitDone = map[string]bool{}

func runPair(N int64, execA, execB func() *hev, stuckCh chan string) (ha, hb *hev, parked bool, stuck string) {
	return runPairW(N, execA, execB, stuckCh, "")
}

func runPairW(N int64, execA, execB func() *hev, stuckCh chan string, pairKey string) (ha, hb *hev, parked bool, stuck string) {
	vshim.SetTokenMode(true)
	vshim.ResetGStep()
	vshim.SetStepBudget(0)
	vshim.SetMode(vshim.MGlobal | vshim.MPoll | vshim.MCount)
	adone := make(chan *hev, 1)
	bdone := make(chan *hev, 1)
	vshim.ArmPark(N)
	go func() { adone <- execA() }()
	var tok *vshim.ParkToken
	select {
	case tok = <-vshim.ParkedTokens():
	case ha = <-adone:
	}
	vshim.ArmPark(0)
	if tok == nil {
		vshim.SetMode(0)
		return ha, nil, false, ""
	}
	vshim.ArmSpinNotify()
	vshim.SetStepBudget(1 << 22) // B either returns, or waits for A (spin notification), or is stuck
	go func() { bdone <- execB() }()
	select {
	case hb = <-bdone:
	case <-vshim.SpinNotified():
		// B waits for something A holds
		if pairKey != "" && !longWaitDone[pairKey] {
			longWaitDone[pairKey] = true
			for i := 0; i < 40 && hb == nil && stuck == ""; i++ {
				vshim.ArmSpinNotify()
				select {
				case hb = <-bdone:
				case <-vshim.SpinNotified():
				case stuck = <-stuckCh:
				}
			}
		}
	case stuck = <-stuckCh:
	}
	vshim.DisarmSpinNotify()
	tok.Resume()
	vshim.SetStepBudget(1 << 22)
	for stuck == "" && (ha == nil || hb == nil) {
		ac, bc := adone, bdone
		if ha != nil {
			ac = nil
		}
		if hb != nil {
			bc = nil
		}
		select {
		case ha = <-ac:
		case hb = <-bc:
		case late := <-vshim.ParkedTokens():
			late.Resume()
		case stuck = <-stuckCh:
		}
	}
	vshim.SetStepBudget(0)
	vshim.SetMode(0)
	return ha, hb, true, stuck
}

func reportPair(res *result, kind, st string, A, B pairOp, N int64, hist []*hev, stuck string) bool {
	ci := map[string]any{"kind": kind, "state": st, "A": A.name, "B": B.name, "N": N, "history": describe(hist)}
	if stuck != "" {
		res.violate(violation{Class: "oppair", Sig: "a call does not return when another call on the same key was suspended mid-operation", Msg: fmt.Sprintf("%s key %s: A=%s parked at step %d, B=%s: %s", kind, st, A.name, N, B.name, stuck), Case: ci})
		return true
	}
	for _, h := range hist {
		if s := provenance(h); s != "" {
			res.violate(violation{Class: "oppair", Sig: "value stored under another key is returned", Msg: s, Case: ci})
			return true
		}
		if s := selfCheck(h); s != "" {
			res.violate(violation{Class: "oppair", Sig: s, Msg: fmt.Sprintf("%s: %s", kind, h), Case: ci})
			return true
		}
	}
	v := checkPerKey(hist, 10*time.Second)
	if v.Unknown {
		res.inconclusive("porcupine timeout on a pair history")
		return false
	}
	if !v.OK {
		res.violate(violation{Class: "oppair", Sig: fmt.Sprintf("two overlapping calls on one key are not linearizable: %s suspended mid-call while %s runs (key %s)", A.name, B.name, st),
			Msg: fmt.Sprintf("%s, key %s, A=%s parked at its step %d, B=%s", kind, st, A.name, N, B.name), Case: ci})
		return true
	}
	return false
}

func opPairMap(res *result, kind, st string, A, B pairOp, stuckCh chan string) {
	for N := int64(1); N < 80; N++ {
		sp := mapSpec{Flavor: kind, Hint: noHint, NKeys: 64}
		if i := indexByte(kind, '/'); i >= 0 {
			sp.Flavor, sp.Hasher = kind[:i], kind[i+1:]
		}
		m := newMap(sp)
		var hist []*hev
		// neighbours, so that chains / slot scans are not trivial
		for k := 10; k < 17; k++ {
			m.Store(k, nextVal(k))
		}
		if st == "present" {
			hist = append(hist, execMapOp(m, &wop{kind: oStore, k: opKey, v: nextVal(opKey)}, 9))
		}
		wa, wb := A.w, B.w
		wa.k, wb.k = opKey, opKey
		wa.v, wb.v = nextVal(opKey), nextVal(opKey)
		logCase("oppair %s %s A=%s B=%s N=%d", kind, st, A.name, B.name, N)
		res.Evaluations++
		ha, hb, parked, stuck := runPairW(N, func() *hev { return execMapOp(m, &wa, 0) }, func() *hev { return execMapOp(m, &wb, 1) }, stuckCh, kind+st+A.name+B.name)
		if !parked {
			return
		}
		res.count("scenarios_parked", 1)
		fp := newFP()
		fp.addStr(kind + st + A.name + B.name)
		fp.add(uint64(N))
		res.nontrivial(fp.sum())
		if stuck == "" {
			hist = append(hist, ha, hb, execMapOp(m, &wop{kind: oLoad, k: opKey}, 2))
		}
		if reportPair(res, kind, st, A, B, N, hist, stuck) {
			return
		}
	}
}

func opPairCache(res *result, kind, st string, A, B pairOp, stuckCh chan string) {
	def := time.Duration(30 * time.Minute)
	for N := int64(1); N < 120; N++ {
		vshim.SetVNow(epoch)
		led := &ledger{}
		c := newCache(cacheSpec{Flavor: kind, Ctor: "New", OptMask: 1 | 2 | 4, DefExp: def, Interval: 0, NKeys: 64, Callback: led.cb(1)})
		var hist []*hev
		now := int64(epoch)
		for k := 10; k < 17; k++ {
			c.Set(k, nextVal(k), time.Hour)
		}
		switch st {
		case "live":
			hist = append(hist, execCacheOp(c, &wop{kind: cSet, k: opKey, v: nextVal(opKey), d: 10 * time.Minute}, 9, now, def))
		case "expired":
			hist = append(hist, execCacheOp(c, &wop{kind: cSet, k: opKey, v: nextVal(opKey), d: 5}, 9, now, def))
			now += 10
			vshim.SetVNow(now)
		}
		wa, wb := A.w, B.w
		wa.k, wb.k = opKey, opKey
		wa.v, wb.v = nextVal(opKey), nextVal(opKey)
		logCase("oppair %s %s A=%s B=%s N=%d", kind, st, A.name, B.name, N)
		res.Evaluations++
		ha, hb, parked, stuck := runPairW(N, func() *hev { return execCacheOp(c, &wa, 0, now, def) }, func() *hev { return execCacheOp(c, &wb, 1, now, def) }, stuckCh, kind+st+A.name+B.name)
		if !parked {
			return
		}
		res.count("scenarios_parked", 1)
		fp := newFP()
		fp.addStr(kind + st + A.name + B.name)
		fp.add(uint64(N))
		res.nontrivial(fp.sum())
		if stuck == "" {
			hist = append(hist, ha, hb, execCacheOp(c, &wop{kind: cGetWithExpiration, k: opKey}, 2, now, def))
		}
		if reportPair(res, kind, st, A, B, N, hist, stuck) {
			return
		}
		// ---- callback ledger of the pair (C06): at most once per value; never a value that
		// another call had taken over as "the old value it replaced"; never a value that
		// is still readable; a loaded GetAndDelete reports exactly its value
		led.mu.Lock()
		cbs := append([]ledgerEntry(nil), led.entries...)
		led.mu.Unlock()
		final := hist[len(hist)-1]
		seen := map[any]bool{}
		cbBad := func(sig, msg string) {
			res.violate(violation{Class: "oppair", Sig: sig, Msg: fmt.Sprintf("%s, key %s, A=%s parked at its step %d, B=%s: %s", kind, st, A.name, N, B.name, msg),
				Case: map[string]any{"kind": kind, "state": st, "A": A.name, "B": B.name, "N": N, "history": describe(hist)}})
		}
		for _, e := range cbs {
			if e.K != opKey {
				continue
			}
			if seen[e.V] {
				cbBad("evicted callback fired twice for one stored value", fmtVal(e.V))
				return
			}
			seen[e.V] = true
			if final.OutOK && final.OutV == e.V {
				cbBad("evicted callback for a value that is still retrievable", fmtVal(e.V))
				return
			}
			for _, h := range []*hev{ha, hb} {
				replaced := (h.Kind == cGetAndSet && h.OutOK && h.OutV == e.V) || (h.Kind == cCompute && h.Loaded && h.Old == e.V && h.Calls == 1 && (h.OutOK || h.Fn != fnSet))
				if replaced && h.Fn != fnDel && !(h.Kind == cCompute && h.Fn == fnCond) {
					cbBad("evicted callback reports a value that another call had already replaced", fmt.Sprintf("callback (%s); %s", fmtVal(e.V), h))
					return
				}
			}
		}
		for _, h := range []*hev{ha, hb} {
			if h.Kind == cGetAndDelete && h.OutOK && !seen[h.OutV] {
				cbBad("GetAndDelete loaded without firing the callback", h.String())
				return
			}
		}
		// ---- later on (C07/C01): once the entry the pair left behind has expired, no
		// traversal may show it any more, whatever the two calls did to each other
		if final.OutOK && final.OutE != 0 {
			vshim.SetVNow(final.OutE + 1)
			_, inItems := c.Items()[opKey]
			inRange := false
			c.Range(func(k int, v any) bool {
				if k == opKey {
					inRange = true
				}
				return true
			})
			if inItems || inRange {
				cbBad("an expired entry is shown by a traversal after two overlapping calls on its key", fmt.Sprintf("the entry expired at %d, one tick later Items shows it: %v, Range visits it: %v", final.OutE-now, inItems, inRange))
				return
			}
		}
	}
}

func indexByte(s string, c byte) int {
	for i := 0; i < len(s); i++ {
		if s[i] == c {
			return i
		}
	}
	return -1
}

// sweepOverlap: a DeleteExpired pass A is suspended at each of its steps, the
// clock then passes the expiry of another entry Y, and a second pass B runs. When
// B returns, everything that had expired when B was invoked must have been
// removed and reported - whatever A is doing. Finally, after A has been resumed,
// each of the two expired entries has been reported exactly once and Count is
// the number of live entries.
func sweepOverlap(res *result, kind string, stuckCh chan string) {
	for N := int64(1); N < 400; N++ {
		vshim.SetVNow(epoch)
		led := &ledger{}
		c := newCache(cacheSpec{Flavor: kind, Ctor: "New", OptMask: 1 | 2 | 4, DefExp: time.Hour, Interval: 0, NKeys: 64, Callback: led.cb(1)})
		for k := 10; k < 17; k++ {
			c.Set(k, nextVal(k), time.Hour)
		}
		vx, vy := nextVal(1), nextVal(2)
		c.Set(1, vx, 5)
		c.Set(2, vy, 50)
		vshim.SetVNow(epoch + 10)
		logCase("oppair sweep-overlap %s N=%d", kind, N)
		res.Evaluations++
		vshim.SetTokenMode(true)
		vshim.ResetGStep()
		vshim.SetStepBudget(0)
		vshim.SetMode(vshim.MGlobal | vshim.MPoll | vshim.MCount)
		adone := make(chan struct{})
		bdone := make(chan struct{})
		vshim.ArmPark(N)
		go func() { c.DeleteExpired(); close(adone) }()
		var tok *vshim.ParkToken
		select {
		case tok = <-vshim.ParkedTokens():
		case <-adone:
		}
		vshim.ArmPark(0)
		if tok == nil {
			vshim.SetMode(0)
			return
		}
		res.count("scenarios_parked", 1)
		fp := newFP()
		fp.addStr("sweep-overlap" + kind)
		fp.add(uint64(N))
		res.nontrivial(fp.sum())
		vshim.SetVNow(epoch + 100) // Y has expired now
		vshim.ArmSpinNotify()
		go func() { c.DeleteExpired(); close(bdone) }()
		bReturned := false
		stuck := ""
		select {
		case <-bdone:
			bReturned = true
		case <-vshim.SpinNotified():
		case stuck = <-stuckCh:
		}
		vshim.DisarmSpinNotify()
		bad := func(sig, msg string) {
			res.violate(violation{Class: "oppair", Sig: sig, Msg: fmt.Sprintf("%s, first DeleteExpired parked at its step %d: %s", kind, N, msg), Case: map[string]any{"kind": kind, "N": N}})
		}
		reported := func(v any) int {
			led.mu.Lock()
			defer led.mu.Unlock()
			n := 0
			for _, e := range led.entries {
				if e.V == v {
					n++
				}
			}
			return n
		}
		if bReturned && reported(vy) != 1 {
			bad("DeleteExpired returns while an entry that had expired before it was invoked is still there", fmt.Sprintf("second pass returned, entry k2 (expired 50 ticks ago) reported %d times, Count()=%d", reported(vy), c.Count()))
			tok.Resume()
			<-adone
			vshim.SetMode(0)
			return
		}
		tok.Resume()
		vshim.SetStepBudget(1 << 22)
		for stuck == "" && !bReturned {
			select {
			case <-bdone:
				bReturned = true
			case late := <-vshim.ParkedTokens():
				late.Resume()
			case stuck = <-stuckCh:
			}
		}
		if stuck == "" {
			select {
			case <-adone:
			case late := <-vshim.ParkedTokens():
				late.Resume()
				<-adone
			case stuck = <-stuckCh:
			}
		}
		vshim.SetStepBudget(0)
		vshim.SetMode(0)
		if stuck != "" {
			bad("overlapping DeleteExpired calls do not return", stuck)
			return
		}
		if reported(vx) != 1 || reported(vy) != 1 || c.Count() != 7 {
			bad("two overlapping DeleteExpired passes do not remove and report each expired entry exactly once", fmt.Sprintf("k1 reported %d times, k2 %d times, Count()=%d (7 live entries)", reported(vx), reported(vy), c.Count()))
			return
		}
	}
}

// tripleSweep: three steps with time passing in between. A Set with a TTL of
// 3 ns on a key that holds an expired-uncleaned value is suspended at its step
// N1 (it has computed its expiry, or not yet); the clock moves on by 10 ns; a
// DeleteExpired pass is suspended at its step N2 (it has taken its snapshot, or
// not yet); the Set is resumed and completes; the pass is resumed. Exactly one
// entry of that key is physically there at any time, so the oracle is exact: if
// the key is gone in the end, the pass removed the value stored last and must
// have reported exactly that one; if it is still there, the pass either removed
// (and reported) the old value before the new one arrived, or found the new one
// unexpired and removed nothing.
func tripleSweep(res *result, kind string, stuckCh chan string) {
	for N1 := int64(1); N1 < 40; N1++ {
		aParkedAny := false
		for N2 := int64(1); N2 < 300; N2++ {
			vshim.SetVNow(epoch)
			led := &ledger{}
			c := newCache(cacheSpec{Flavor: kind, Ctor: "New", OptMask: 1 | 2 | 4, DefExp: time.Hour, Interval: 0, NKeys: 64, Callback: led.cb(1)})
			for k := 10; k < 15; k++ {
				c.SetForever(k, nextVal(k))
			}
			vOld, vNew := nextVal(opKey), nextVal(opKey)
			c.Set(opKey, vOld, 5)
			now := int64(epoch + 10)
			vshim.SetVNow(now)
			logCase("oppair triple-sweep %s N1=%d N2=%d", kind, N1, N2)
			res.Evaluations++
			vshim.SetTokenMode(true)
			vshim.ResetGStep()
			vshim.SetStepBudget(0)
			vshim.SetMode(vshim.MGlobal | vshim.MPoll | vshim.MCount)
			adone := make(chan struct{})
			bdone := make(chan struct{})
			vshim.ArmPark(N1)
			go func() { c.Set(opKey, vNew, 3); close(adone) }()
			var tokA *vshim.ParkToken
			select {
			case tokA = <-vshim.ParkedTokens():
			case <-adone:
			}
			vshim.ArmPark(0)
			if tokA == nil {
				vshim.SetMode(0)
				if !aParkedAny {
					return // the Set has fewer than N1 steps: enumeration complete
				}
				break
			}
			aParkedAny = true
			now += 10
			vshim.SetVNow(now)
			vshim.ArmPark(vshim.GStep() + N2)
			vshim.ArmSpinNotify()
			go func() { c.DeleteExpired(); close(bdone) }()
			var tokB *vshim.ParkToken
			bFinished := false
			select {
			case tokB = <-vshim.ParkedTokens():
			case <-vshim.SpinNotified():
			case <-bdone:
				bFinished = true
			}
			vshim.ArmPark(0)
			vshim.DisarmSpinNotify()
			// resume the Set; it completes unless it needs something the pass holds
			vshim.ArmSpinNotify()
			tokA.Resume()
			aFinished := false
			stuck := ""
			select {
			case <-adone:
				aFinished = true
			case <-vshim.SpinNotified():
			case stuck = <-stuckCh:
			}
			vshim.DisarmSpinNotify()
			if tokB != nil {
				tokB.Resume()
			}
			vshim.SetStepBudget(1 << 22)
			for stuck == "" && !(aFinished && bFinished) {
				ac, bc := adone, bdone
				if aFinished {
					ac = nil
				}
				if bFinished {
					bc = nil
				}
				select {
				case <-ac:
					aFinished = true
				case <-bc:
					bFinished = true
				case late := <-vshim.ParkedTokens():
					late.Resume()
				case stuck = <-stuckCh:
				}
			}
			vshim.SetStepBudget(0)
			vshim.SetMode(0)
			if tokB != nil {
				res.count("scenarios_parked", 1)
				fp := newFP()
				fp.addStr("triple-sweep" + kind)
				fp.add(uint64(N1), uint64(N2))
				res.nontrivial(fp.sum())
			}
			bad := func(sig, msg string) {
				res.violate(violation{Class: "oppair", Sig: sig, Msg: fmt.Sprintf("%s, Set(ttl 3ns) suspended at its step %d, clock +10ns, DeleteExpired suspended at its step %d, Set resumed, pass resumed: %s", kind, N1, N2, msg),
					Case: map[string]any{"kind": kind, "N1": N1, "N2": N2}})
			}
			if stuck != "" {
				bad("calls do not return in the Set / DeleteExpired schedule", stuck)
				return
			}
			led.mu.Lock()
			var rep []any
			for _, e := range led.entries {
				if e.K == opKey {
					rep = append(rep, e.V)
				}
			}
			led.mu.Unlock()
			present := c.Count() == 6
			switch {
			case c.Count() != 5 && c.Count() != 6:
				bad("Count is wrong after a Set raced a DeleteExpired pass", fmt.Sprintf("Count()=%d, 5 permanent entries", c.Count()))
				return
			case present && !(len(rep) == 0 || (len(rep) == 1 && rep[0] == any(vOld))):
				// the old value was either overwritten by the Set (silently) or removed by the pass before the Set landed
				bad("DeleteExpired reports something else than the entry it removed", fmt.Sprintf("the key still holds the new value, so the pass removed the old one (%s) or nothing; reported: %v", fmtVal(vOld), fmtVals(rep)))
				return
			case !present && !(len(rep) == 1 && rep[0] == any(vNew)):
				bad("DeleteExpired reports something else than the entry it removed", fmt.Sprintf("the key is gone, so the pass removed the value stored last (%s); reported: %v", fmtVal(vNew), fmtVals(rep)))
				return
			}
			if tokB == nil && bFinished {
				break // the pass has fewer than N2 steps at this N1
			}
		}
	}
}

func fmtVals(vs []any) []string {
	out := make([]string, len(vs))
	for i, v := range vs {
		out[i] = fmtVal(v)
	}
	return out
}

// configPair: the two settings of a cache - default expiration and evicted
// callback - are independent. One setter A is parked at each of its steps, the
// other setter B runs to completion, A is resumed. Afterwards the setting each of
// them wrote must be the one in force: DefaultExpiration() and the expiry of a
// SetDefault entry follow the default that was set, and a Delete reports to
// exactly the callback that was installed last (none after SetEvictedCallback(nil)).
// Two setters of the same setting may end either way round.
func configPair(res *result, kind string, stuckCh chan string) {
	type cfgOp struct {
		name string
		def  time.Duration // != 0: SetDefaultExpiration(def)
		cb   int           // >0: SetEvictedCallback(ledger callback #cb); -1: SetEvictedCallback(nil)
	}
	ops := []cfgOp{
		{"SetDefaultExpiration(7m)", 7 * time.Minute, 0},
		{"SetDefaultExpiration(NoExpiration)", cache.NoExpiration, 0},
		{"SetEvictedCallback(#2)", 0, 2},
		{"SetEvictedCallback(nil)", 0, -1},
	}
	ops2 := []cfgOp{
		{"SetDefaultExpiration(11m)", 11 * time.Minute, 0},
		{"SetEvictedCallback(#3)", 0, 3},
		{"SetEvictedCallback(nil)", 0, -1},
	}
	const def0 = 30 * time.Minute
	for _, A := range ops {
		for _, B := range ops2 {
			for N := int64(1); N < 60; N++ {
				vshim.SetVNow(epoch)
				led := &ledger{}
				c := newCache(cacheSpec{Flavor: kind, Ctor: "New", OptMask: 1 | 2 | 4, DefExp: def0, Interval: 0, NKeys: 64, Callback: led.cb(1)})
				apply := func(o cfgOp) func() *hev {
					return func() *hev {
						switch {
						case o.def != 0:
							c.SetDefaultExpiration(o.def)
						case o.cb > 0:
							c.SetEvictedCallback(led.cb(o.cb))
						default:
							c.SetEvictedCallback(nil)
						}
						return &hev{}
					}
				}
				logCase("oppair config-pair %s A=%s B=%s N=%d", kind, A.name, B.name, N)
				res.Evaluations++
				_, _, parked, stuck := runPair(N, apply(A), apply(B), stuckCh)
				if !parked {
					break
				}
				res.count("scenarios_parked", 1)
				res.count("config_pair_scenarios", 1)
				fp := newFP()
				fp.addStr("config-pair" + kind + A.name + B.name)
				fp.add(uint64(N))
				res.nontrivial(fp.sum())
				bad := func(sig, msg string) {
					res.violate(violation{Class: "oppair", Sig: sig, Msg: fmt.Sprintf("%s, A=%s parked at its step %d, B=%s ran, A resumed: %s", kind, A.name, N, B.name, msg), Case: map[string]any{"kind": kind, "A": A.name, "B": B.name, "N": N}})
				}
				if stuck != "" {
					bad("a settings call does not return when another one was suspended mid-call", stuck)
					return
				}
				// expected default(s)
				wantDef := map[time.Duration]bool{}
				if A.def != 0 {
					wantDef[A.def] = true
				}
				if B.def != 0 {
					wantDef[B.def] = true
				}
				if len(wantDef) == 0 {
					wantDef[def0] = true
				}
				norm := func(d time.Duration) time.Duration {
					if d <= 0 {
						return 0
					}
					return d
				}
				got := c.DefaultExpiration()
				okDef := false
				for d := range wantDef {
					if norm(d) == norm(got) {
						okDef = true
					}
				}
				if !okDef {
					bad("a default expiration that was set is lost when the callback is set concurrently", fmt.Sprintf("DefaultExpiration()=%v", got))
					return
				}
				c.SetDefault(1, nextVal(1))
				_, exp, ok := c.GetWithExpiration(1)
				okExp := false
				for d := range wantDef {
					if norm(d) == 0 && ok && exp.IsZero() || norm(d) > 0 && ok && exp.UnixNano() == epoch+int64(d) {
						okExp = true
					}
				}
				if !okExp {
					bad("SetDefault does not use the default expiration in force", fmt.Sprintf("GetWithExpiration = (%v, %v), DefaultExpiration()=%v", exp, ok, got))
					return
				}
				// expected callback(s): 0 = none
				wantCb := map[int]bool{}
				for _, o := range []cfgOp{A, B} {
					if o.cb > 0 {
						wantCb[o.cb] = true
					} else if o.cb < 0 {
						wantCb[0] = true
					}
				}
				if len(wantCb) == 0 {
					wantCb[1] = true
				}
				led.mu.Lock()
				led.entries = nil
				led.mu.Unlock()
				v := nextVal(2)
				c.Set(2, v, time.Hour)
				c.Delete(2)
				led.mu.Lock()
				cbs := append([]ledgerEntry(nil), led.entries...)
				led.mu.Unlock()
				gotCb := 0
				if len(cbs) > 1 {
					bad("Delete fires more than one callback", fmt.Sprintf("%d callbacks", len(cbs)))
					return
				}
				if len(cbs) == 1 {
					gotCb = cbs[0].CbID
					if cbs[0].K != 2 || cbs[0].V != any(v) {
						bad("callback with another entry than the one removed", fmt.Sprintf("(k%d,%s)", cbs[0].K, fmtVal(cbs[0].V)))
						return
					}
				}
				if !wantCb[gotCb] {
					bad("a removal is not reported to the callback in force (a callback that was set is lost when the default expiration is set concurrently)", fmt.Sprintf("Delete reported to callback #%d (0 = none)", gotCb))
					return
				}
				if c.HasEvictedCallback() != (gotCb != 0) {
					bad("HasEvictedCallback disagrees with the callback that fires", fmt.Sprintf("HasEvictedCallback()=%v, Delete reported to callback #%d", c.HasEvictedCallback(), gotCb))
					return
				}
			}
		}
	}
}

// tickClock: with the real clock two readings inside one call differ. Here
// every reading advances the virtual clock by one tick while ONE call runs on an
// entry that expires 0..8 ticks after the call starts, so that the expiry falls
// before, between or after the call's readings. The call's result and the state
// it leaves (read back later, clock frozen) must be explained by one decision
// instant n1 and one instant n2 from which a new expiry was computed, both within
// the call. A call that decides "live" with one reading and "expired" with
// another (runs the user function yet reports loaded, stores yet returns the old
// value, ...) has no such explanation.
func tickClock(res *result, kind string, stuckCh chan string) {
	def := time.Duration(30 * time.Minute)
	for _, A := range cachePairOps() {
		for j := int64(0); j <= 8; j++ {
			vshim.SetVNow(epoch)
			c := newCache(cacheSpec{Flavor: kind, Ctor: "New", OptMask: 1 | 2, DefExp: def, Interval: 0, NKeys: 64})
			for k := 10; k < 14; k++ {
				c.Set(k, nextVal(k), time.Hour)
			}
			vOld := nextVal(opKey)
			c.Set(opKey, vOld, time.Duration(100+j))
			e0 := int64(epoch) + 100 + j
			before := int64(epoch) + 100
			vshim.SetVNow(before)
			wa := A.w
			wa.k, wa.v = opKey, nextVal(opKey)
			logCase("oppair tick-clock %s A=%s j=%d", kind, A.name, j)
			res.Evaluations++
			// the call runs in a goroutine of its own under a step budget: a call that never
			// returns (a retry loop that compares two different clock readings) is reported
			vshim.ResetGStep()
			vshim.SetMode(vshim.MGlobal | vshim.MCount)
			vshim.SetStepBudget(1 << 21)
			vshim.SetAutoTick(1)
			hdone := make(chan *hev, 1)
			go func() { hdone <- execCacheOp(c, &wa, 0, before, def) }()
			var h *hev
			select {
			case h = <-hdone:
			case reason := <-stuckCh:
				vshim.SetAutoTick(0)
				vshim.SetStepBudget(0)
				vshim.SetMode(0)
				res.violate(violation{Class: "oppair", Sig: fmt.Sprintf("%s does not return when the clock passes the entry's expiry during the call", A.name),
					Msg:  fmt.Sprintf("%s: entry expires at +%d, every clock reading advances the clock by one tick: %s", kind, e0-before, reason),
					Case: map[string]any{"kind": kind, "A": A.name, "j": j}})
				return
			}
			vshim.SetAutoTick(0)
			vshim.SetStepBudget(0)
			vshim.SetMode(0)
			after := vshim.VNow()
			T := after + 1000
			vshim.SetVNow(T)
			f := execCacheOp(c, &wop{kind: cGetWithExpiration, k: opKey}, 2, T, def)
			res.count("tick_clock_scenarios", 1)
			if after-before >= 2 {
				fp := newFP()
				fp.addStr("tick-clock" + kind + A.name)
				fp.add(uint64(j))
				res.nontrivial(fp.sum())
			}
			explained := false
			rawTTL := h.OutE - before // GetWithTTL: the duration reported (OutE was computed from `before`)
			for n1 := before; n1 <= after && !explained; n1++ {
				for n2 := before; n2 <= after && !explained; n2++ {
					hh := *h
					hh.Now = n1
					hh.E = expOf(wa.d, def, n2)
					if hh.Kind == cGetWithTTL && hh.OutOK && h.OutE != 0 {
						hh.OutE = n2 + rawTTL // the reading the remaining time was computed from
					}
					ok1, ns := stepSlot(slot{P: true, V: vOld, E: e0}, &hh)
					if !ok1 {
						continue
					}
					if ok2, _ := stepSlot(ns, f); ok2 {
						explained = true
					}
				}
			}
			if !explained {
				res.violate(violation{Class: "oppair", Sig: fmt.Sprintf("%s while the clock passes the entry's expiry: result and resulting state are explained by no single decision instant", A.name),
					Msg:  fmt.Sprintf("%s: entry expires at +%d, clock read at +%d..+%d during the call: %s; afterwards (+%d): %s", kind, e0-before, 0, after-before-1, h, T-before, f),
					Case: map[string]any{"kind": kind, "A": A.name, "j": j}})
				return
			}
		}
	}
}

// refreshOnEvict: an evicted callback that stores entries again (the
// "reload on eviction" idiom): the same key, its sibling, or the next key, all of
// which may be part of the very sweep that is reporting. Conservation oracle that
// holds however the sweep interleaves removal and reporting: the number of
// callbacks equals the number of entries physically removed, and that number is
// Count before - Count after + the inserts the callbacks made (an insert is a
// re-entrant Set that raised Count; a Set that replaced a not yet removed entry
// did not). Every reported value is one of the original values, at most once.
func refreshOnEvict(res *result, kind string) {
	const n = 40
	for _, target := range []string{"same", "sibling", "next"} {
		for _, how := range []string{"DeleteExpired", "Delete", "GetAndDelete"} {
			vshim.SetVNow(epoch)
			var c cacheAPI
			orig := map[any]int{}
			reported := map[any]int{}
			var foreign []string
			inserts, cbs := 0, 0
			depth := 0
			cb := func(k int, v any) {
				cbs++
				if _, ok := orig[v]; ok {
					reported[v]++
				} else if len(foreign) < 3 {
					foreign = append(foreign, fmt.Sprintf("(k%d,%s)", k, fmtVal(v)))
				}
				if depth > 0 {
					return
				}
				depth++
				defer func() { depth-- }()
				t := k
				switch target {
				case "sibling":
					t = k ^ 1
				case "next":
					t = (k + 1) % n
				}
				n0 := c.Count()
				c.Set(t, nextVal(t), time.Hour)
				inserts += c.Count() - n0
			}
			c = newCache(cacheSpec{Flavor: kind, Ctor: "New", OptMask: 1 | 2 | 4, DefExp: time.Hour, Interval: 0, NKeys: 64, Callback: cb})
			for k := 0; k < n; k++ {
				v := nextVal(k)
				orig[v] = k
				d := time.Duration(5)
				if how != "DeleteExpired" {
					d = time.Hour
				}
				c.Set(k, v, d)
			}
			logCase("oppair refresh-on-evict %s target=%s how=%s", kind, target, how)
			res.Evaluations++
			c0 := c.Count()
			switch how {
			case "DeleteExpired":
				vshim.SetVNow(epoch + 10)
				c.DeleteExpired()
			case "Delete":
				for k := 0; k < n; k += 2 {
					c.Delete(k)
				}
			default:
				for k := 0; k < n; k += 2 {
					c.GetAndDelete(k)
				}
			}
			c1 := c.Count()
			res.count("refresh_on_evict_scenarios", 1)
			fp := newFP()
			fp.addStr("refresh-on-evict" + kind + target + how)
			res.nontrivial(fp.sum())
			bad := func(sig, msg string) {
				res.violate(violation{Class: "oppair", Sig: sig, Msg: fmt.Sprintf("%s, %d entries, %s with a callback that stores the %s key again: %s", kind, n, how, target, msg),
					Case: map[string]any{"kind": kind, "target": target, "how": how}})
			}
			removed := c0 + inserts - c1
			if len(foreign) > 0 {
				bad("evicted callback reports a value that was not removed", fmt.Sprintf("%v (only the %d original values can have been removed)", foreign, n))
				continue
			}
			for v, times := range reported {
				if times > 1 {
					bad("evicted callback fired twice for one stored value", fmt.Sprintf("%s reported %d times", fmtVal(v), times))
					break
				}
			}
			if cbs != removed {
				bad("removals and evicted callbacks do not balance when the callback stores entries again", fmt.Sprintf("%d callbacks, %d entries removed (Count %d -> %d, %d inserts by the callbacks)", cbs, removed, c0, c1, inserts))
			}
		}
	}
}

func insertsAbsent(k uint8) bool {
	return k == oStore || k == oLoadOrStore || k == oLoadAndStore || k == oLoadOrCompute || k == oCompute
}

// opPairGrowDue: the pair enumeration for the state "the first call has to grow the
// table before it can insert": a colliding hasher puts 125 keys into one chain of 25
// full buckets, which is also past the grow threshold of the minimal table, so the
// first call unlocks, grows and retries. It is parked at each of the last steps of
// that sequence (after the grow) while the second call inserts the same key.
func opPairGrowDue(res *result, kind string, A, B pairOp, stuckCh chan string) {
	if A.w.kind == oCompute && A.w.fn != fnSet || B.w.kind == oCompute && B.w.fn != fnSet {
		return
	}
	mk := func() mapAPI {
		sp := mapSpec{Flavor: kind, Hint: noHint, NKeys: 256}
		if i := indexByte(kind, '/'); i >= 0 {
			sp.Flavor, sp.Hasher = kind[:i], kind[i+1:]
		}
		m := newMap(sp)
		for k := 10; k < 135; k++ {
			m.Store(k, nextVal(k))
		}
		return m
	}
	// calibration: the number of steps of A alone
	m0 := mk()
	wa0 := A.w
	wa0.k, wa0.v = opKey, nextVal(opKey)
	vshim.ResetGStep()
	vshim.SetMode(vshim.MGlobal | vshim.MCount)
	execMapOp(m0, &wa0, 0)
	L := vshim.GStep()
	vshim.SetMode(0)
	if st, ok := mapStats(m0); ok && st.TotalGrowths == 0 {
		return // this layout does not grow here: nothing to enumerate
	}
	lo := L - 60
	if lo < 1 {
		lo = 1
	}
	for N := lo; N <= L; N++ {
		m := mk()
		wa, wb := A.w, B.w
		wa.k, wb.k = opKey, opKey
		wa.v, wb.v = nextVal(opKey), nextVal(opKey)
		logCase("oppair grow-due %s A=%s B=%s N=%d of %d", kind, A.name, B.name, N, L)
		res.Evaluations++
		ha, hb, parked, stuck := runPairW(N, func() *hev { return execMapOp(m, &wa, 0) }, func() *hev { return execMapOp(m, &wb, 1) }, stuckCh, "")
		if !parked {
			return
		}
		res.count("scenarios_parked", 1)
		res.count("grow_due_scenarios", 1)
		fp := newFP()
		fp.addStr(kind + "grow-due" + A.name + B.name)
		fp.add(uint64(N))
		res.nontrivial(fp.sum())
		var hist []*hev
		if stuck == "" {
			hist = append(hist, ha, hb, execMapOp(m, &wop{kind: oLoad, k: opKey}, 2))
		}
		if reportPair(res, kind, "absent, grow due", A, B, N, hist, stuck) {
			return
		}
		// a key stored twice shows as a Size that is one too high and as a second visit
		n, dup := 0, 0
		m.Range(func(k int, v any) bool {
			n++
			if k == opKey {
				dup++
			}
			return true
		})
		if dup > 1 || m.Size() != 126 || n != 126 {
			res.violate(violation{Class: "oppair", Sig: "a key is stored twice when two calls insert it while the first one has to grow the table",
				Msg:  fmt.Sprintf("%s, A=%s parked at its step %d of %d (after it grew the table), B=%s: Range visits k%d %d times, Size()=%d, Range visits %d pairs, 126 keys were stored", kind, A.name, N, L, B.name, opKey, dup, m.Size(), n),
				Case: map[string]any{"kind": kind, "A": A.name, "B": B.name, "N": N}})
			return
		}
	}
}

// sweepVsRefresh: a DeleteExpired pass is suspended at each of its steps; meanwhile
// every second expired entry is given a fresh, never-expiring value; the pass is
// resumed. When it returns, the entries that were still expired must all be gone and
// reported once (the pass may not give up because one of its candidates turned out
// to be alive), the refreshed ones must be there with their new values, unreported.
func sweepVsRefresh(res *result, kind string, stuckCh chan string) {
	const n = 24
	for N := int64(1); N < 600; N++ {
		vshim.SetVNow(epoch)
		led := &ledger{}
		c := newCache(cacheSpec{Flavor: kind, Ctor: "New", OptMask: 1 | 2 | 4, DefExp: time.Hour, Interval: 0, NKeys: 64, Callback: led.cb(1)})
		old := map[int]any{}
		for k := 0; k < n; k++ {
			old[k] = nextVal(k)
			c.Set(k, old[k], 5)
		}
		vshim.SetVNow(epoch + 10)
		logCase("oppair sweep-vs-refresh %s N=%d", kind, N)
		res.Evaluations++
		vshim.SetTokenMode(true)
		vshim.ResetGStep()
		vshim.SetStepBudget(0)
		vshim.SetMode(vshim.MGlobal | vshim.MPoll | vshim.MCount)
		adone := make(chan struct{})
		vshim.ArmPark(N)
		go func() { c.DeleteExpired(); close(adone) }()
		var tok *vshim.ParkToken
		select {
		case tok = <-vshim.ParkedTokens():
		case <-adone:
		}
		vshim.ArmPark(0)
		if tok == nil {
			vshim.SetMode(0)
			return
		}
		res.count("scenarios_parked", 1)
		fp := newFP()
		fp.addStr("sweep-vs-refresh" + kind)
		fp.add(uint64(N))
		res.nontrivial(fp.sum())
		// refresh every second key; a refresh may have to wait for a bucket the pass holds
		fresh := map[int]any{}
		wdone := make(chan struct{})
		vshim.ArmSpinNotify()
		vshim.SetStepBudget(1 << 22)
		go func() {
			for k := 0; k < n; k += 2 {
				v := nextVal(k)
				fresh[k] = v
				c.SetForever(k, v)
			}
			close(wdone)
		}()
		stuck := ""
		select {
		case <-wdone:
		case <-vshim.SpinNotified():
		case stuck = <-stuckCh:
		}
		vshim.DisarmSpinNotify()
		tok.Resume()
		for done := 0; stuck == "" && done < 2; {
			select {
			case <-adone:
				adone = nil
				done++
			case <-wdone:
				wdone = nil
				done++
			case late := <-vshim.ParkedTokens():
				late.Resume()
			case stuck = <-stuckCh:
			}
		}
		vshim.SetStepBudget(0)
		vshim.SetMode(0)
		bad := func(sig, msg string) {
			res.violate(violation{Class: "oppair", Sig: sig, Msg: fmt.Sprintf("%s, DeleteExpired parked at its step %d while every second expired entry was refreshed: %s", kind, N, msg), Case: map[string]any{"kind": kind, "N": N}})
		}
		if stuck != "" {
			bad("a call does not return when a sweep was suspended mid-pass", stuck)
			return
		}
		rep := map[any]int{}
		led.mu.Lock()
		for _, e := range led.entries {
			rep[e.V]++
		}
		led.mu.Unlock()
		for k := 0; k < n; k++ {
			v, ok := c.Get(k)
			if k%2 == 0 {
				// refreshed: present with the new value; the old value may have been removed
				// and reported (once) if the pass got there first
				if !ok || v != fresh[k] {
					bad("a value stored while a sweep was in flight is lost", fmt.Sprintf("k%d = (%s,%v), stored %s", k, fmtVal(v), ok, fmtVal(fresh[k])))
					return
				}
				if rep[fresh[k]] != 0 || rep[old[k]] > 1 {
					bad("evicted callback for a value that is still retrievable, or twice for one value", fmt.Sprintf("k%d", k))
					return
				}
				continue
			}
			if ok {
				bad("an expired entry is returned", fmt.Sprintf("k%d", k))
				return
			}
			if rep[old[k]] != 1 {
				bad("DeleteExpired returns while an entry that had expired before it was invoked is still there (or unreported)", fmt.Sprintf("k%d (expired 5 ticks before the pass began) reported %d times; Count()=%d, %d entries are live", k, rep[old[k]], c.Count(), n/2))
				return
			}
		}
		if cnt := c.Count(); cnt != n/2 {
			bad("Count differs from the live entries right after DeleteExpired", fmt.Sprintf("Count()=%d, %d entries are live", cnt, n/2))
			return
		}
	}
}
