package main

import (
	"fmt"
	"time"

	"github.com/fufuok/cache/zzverif/vshim"
)

// Reader harassment (third form of the schedule enumeration). One lock-free
// read R of key A is single-stepped: it is parked at every one of its shim
// steps. Before each of its first j-1 steps a writer overwrites A in place (so
// that every snapshot attempt of the reader fails), at step j the writer deletes
// A and stores another key B that lands in the slot A has just left (same bucket,
// first free slot), then the reader runs on undisturbed. j is enumerated. All
// writer calls complete while R is suspended, so the recorded history has one
// call (R) overlapping a sequential chain of writes and is checked exactly: R
// must return one of the values A held during the call, or report A absent once
// it was deleted - never B's value, never a torn value. This is the adversary of
// bounded retry loops and of "compare the key, then read the slot again" code,
// which random schedules only meet when three preemptions hit one call.

type harassReader struct {
	name string
	kind uint8
}

func mapHarassReaders() []harassReader {
	return []harassReader{{"Load", oLoad}, {"LoadOrStore(hit)", oLoadOrStore}, {"LoadOrCompute(hit)", oLoadOrCompute}}
}

// sameBucketKey returns a key != a that shares a's bucket (inspector), or a+1.
func sameBucketKey(m mapAPI, a, universe int) int {
	ba := m.BucketOf(a)
	if ba < 0 {
		return a + 1
	}
	for k := 0; k < universe; k++ {
		if k != a && m.BucketOf(k) == ba {
			return k
		}
	}
	return a + 1
}

func harassMap(res *result, kind string, rd harassReader, finale string, stuckCh chan string) {
	const A = 5
	const universe = 512
	for j := int64(1); j <= 64; j++ {
		sp := mapSpec{Flavor: kind, Hint: noHint, NKeys: universe}
		if i := indexByte(kind, '/'); i >= 0 {
			sp.Flavor, sp.Hasher = kind[:i], kind[i+1:]
		}
		m := newMap(sp)
		B := sameBucketKey(m, A, universe)
		var hist []*hev
		hist = append(hist, execMapOp(m, &wop{kind: oStore, k: A, v: nextVal(A)}, 9))
		logCase("harass %s R=%s finale=%s j=%d", kind, rd.name, finale, j)
		res.Evaluations++
		vshim.SetTokenMode(true)
		vshim.ResetGStep()
		vshim.SetStepBudget(0)
		vshim.SetMode(vshim.MGlobal | vshim.MPoll | vshim.MCount)
		rdone := make(chan *hev, 1)
		rw := wop{kind: rd.kind, k: A, v: nextVal(A)}
		vshim.ArmPark(1)
		go func() { rdone <- execMapOp(m, &rw, 0) }()
		var hr *hev
		stuck := ""
		steps := int64(0)
		blocked := false
		for hr == nil && stuck == "" {
			select {
			case tok := <-vshim.ParkedTokens():
				vshim.ArmPark(0)
				steps++
				if !blocked && steps <= j {
					var ops []wop
					if steps < j {
						ops = []wop{{kind: oStore, k: A, v: nextVal(A)}}
					} else {
						switch finale {
						case "delete+reuse":
							ops = []wop{{kind: oDelete, k: A}, {kind: oStore, k: B, v: nextVal(B)}}
						case "delete":
							ops = []wop{{kind: oDelete, k: A}}
						case "delete+reinsert":
							ops = []wop{{kind: oDelete, k: A}, {kind: oStore, k: B, v: nextVal(B)}, {kind: oStore, k: A, v: nextVal(A)}}
						}
					}
					// the writer normally never waits for a lock-free reader; if it does (R
					// holds a lock), R is simply released and the rest runs concurrently
					wdone := make(chan []*hev, 1)
					vshim.ArmSpinNotify()
					vshim.SetStepBudget(1 << 22)
					go func() {
						var hs []*hev
						for i := range ops {
							hs = append(hs, execMapOp(m, &ops[i], 1))
						}
						wdone <- hs
					}()
					select {
					case hs := <-wdone:
						hist = append(hist, hs...)
					case <-vshim.SpinNotified():
						blocked = true
					case stuck = <-stuckCh:
					}
					vshim.DisarmSpinNotify()
					vshim.SetStepBudget(0)
					if blocked {
						tok.Resume()
						select {
						case hs := <-wdone:
							hist = append(hist, hs...)
						case stuck = <-stuckCh:
						}
						continue
					}
				}
				if steps < j && !blocked {
					vshim.ArmPark(vshim.GStep() + 1)
				} else {
					vshim.SetStepBudget(1 << 22)
				}
				tok.Resume()
			case hr = <-rdone:
			case stuck = <-stuckCh:
			}
		}
		vshim.ArmPark(0)
		vshim.SetStepBudget(0)
		vshim.SetMode(0)
		ci := map[string]any{"kind": kind, "reader": rd.name, "finale": finale, "j": j, "reader_steps": steps}
		if stuck != "" {
			res.violate(violation{Class: "harass", Sig: "a read does not return when writers update its key between its steps", Msg: fmt.Sprintf("%s %s(k%d), j=%d: %s", kind, rd.name, A, j, stuck), Case: ci})
			return
		}
		res.count("harass_scenarios", 1)
		res.max("harass_max_reader_steps", steps)
		fp := newFP()
		fp.addStr("harass" + kind + rd.name + finale)
		fp.add(uint64(j))
		res.nontrivial(fp.sum())
		hist = append(hist, hr)
		hist = append(hist, execMapOp(m, &wop{kind: oLoad, k: A}, 2), execMapOp(m, &wop{kind: oLoad, k: B}, 2))
		ci["history"] = describe(hist)
		for _, h := range hist {
			if s := provenance(h); s != "" {
				res.violate(violation{Class: "harass", Sig: "value stored under another key is returned", Msg: fmt.Sprintf("%s, reader single-stepped, writers before each of its first %d steps then %s: %s", kind, j-1, finale, s), Case: ci})
				return
			}
		}
		v := checkPerKey(hist, 10*time.Second)
		if v.Unknown {
			res.inconclusive("porcupine timeout on a harass history")
		} else if !v.OK {
			res.violate(violation{Class: "harass", Sig: fmt.Sprintf("%s single-stepped against in-place updates and a %s is not linearizable", rd.name, finale),
				Msg: fmt.Sprintf("%s, %s(k%d) single-stepped, k%d overwritten before each of its first %d steps, then %s (k%d shares the bucket): %s", kind, rd.name, A, A, j-1, finale, B, hr), Case: ci})
			return
		}
		if steps < j {
			return // the reader finished before step j: larger j repeat this schedule
		}
	}
}

func harassCache(res *result, kind string, rkind uint8, stuckCh chan string) {
	const A = 5
	def := time.Duration(30 * time.Minute)
	now := int64(epoch)
	for j := int64(1); j <= 64; j++ {
		vshim.SetVNow(epoch)
		c := newCache(cacheSpec{Flavor: kind, Ctor: "New", OptMask: 1 | 2, DefExp: def, Interval: 0, NKeys: 64})
		var hist []*hev
		hist = append(hist, execCacheOp(c, &wop{kind: cSet, k: A, v: nextVal(A), d: time.Hour}, 9, now, def))
		logCase("harass %s R=%s j=%d", kind, opNames[rkind], j)
		res.Evaluations++
		vshim.SetTokenMode(true)
		vshim.ResetGStep()
		vshim.SetStepBudget(0)
		vshim.SetMode(vshim.MGlobal | vshim.MPoll | vshim.MCount)
		rdone := make(chan *hev, 1)
		rw := wop{kind: rkind, k: A}
		vshim.ArmPark(1)
		go func() { rdone <- execCacheOp(c, &rw, 0, now, def) }()
		var hr *hev
		stuck := ""
		steps := int64(0)
		blocked := false
		for hr == nil && stuck == "" {
			select {
			case tok := <-vshim.ParkedTokens():
				vshim.ArmPark(0)
				steps++
				if !blocked && steps <= j {
					ops := []wop{{kind: cSet, k: A, v: nextVal(A), d: 2 * time.Hour}}
					if steps == j {
						ops = []wop{{kind: cDelete, k: A}, {kind: cSet, k: A + 1, v: nextVal(A + 1), d: time.Hour}}
					}
					wdone := make(chan []*hev, 1)
					vshim.ArmSpinNotify()
					vshim.SetStepBudget(1 << 22)
					go func() {
						var hs []*hev
						for i := range ops {
							hs = append(hs, execCacheOp(c, &ops[i], 1, now, def))
						}
						wdone <- hs
					}()
					select {
					case hs := <-wdone:
						hist = append(hist, hs...)
					case <-vshim.SpinNotified():
						blocked = true
					case stuck = <-stuckCh:
					}
					vshim.DisarmSpinNotify()
					vshim.SetStepBudget(0)
					if blocked {
						tok.Resume()
						select {
						case hs := <-wdone:
							hist = append(hist, hs...)
						case stuck = <-stuckCh:
						}
						continue
					}
				}
				if steps < j && !blocked {
					vshim.ArmPark(vshim.GStep() + 1)
				} else {
					vshim.SetStepBudget(1 << 22)
				}
				tok.Resume()
			case hr = <-rdone:
			case stuck = <-stuckCh:
			}
		}
		vshim.ArmPark(0)
		vshim.SetStepBudget(0)
		vshim.SetMode(0)
		ci := map[string]any{"kind": kind, "reader": opNames[rkind], "j": j, "reader_steps": steps}
		if stuck != "" {
			res.violate(violation{Class: "harass", Sig: "a read does not return when writers update its key between its steps", Msg: fmt.Sprintf("%s %s(k%d), j=%d: %s", kind, opNames[rkind], A, j, stuck), Case: ci})
			return
		}
		res.count("harass_scenarios", 1)
		res.max("harass_max_reader_steps", steps)
		fp := newFP()
		fp.addStr("harass" + kind + opNames[rkind])
		fp.add(uint64(j))
		res.nontrivial(fp.sum())
		hist = append(hist, hr, execCacheOp(c, &wop{kind: cGetWithExpiration, k: A}, 2, now, def))
		ci["history"] = describe(hist)
		for _, h := range hist {
			if s := provenance(h); s != "" {
				res.violate(violation{Class: "harass", Sig: "value stored under another key is returned", Msg: fmt.Sprintf("%s, reader single-stepped: %s", kind, s), Case: ci})
				return
			}
		}
		v := checkPerKey(hist, 10*time.Second)
		if v.Unknown {
			res.inconclusive("porcupine timeout on a harass history")
		} else if !v.OK {
			res.violate(violation{Class: "harass", Sig: fmt.Sprintf("%s single-stepped against updates and a delete is not linearizable", opNames[rkind]),
				Msg: fmt.Sprintf("%s, %s(k%d) single-stepped, k%d overwritten before each of its first %d steps, then deleted: %s", kind, opNames[rkind], A, A, j-1, hr), Case: ci})
			return
		}
		if steps < j {
			return
		}
	}
}

// runHarass is called from the pairstall engine (same properties, same stripes).
func runHarass(a *args, res *result, unit *int64, stuckCh chan string) {
	var mapKinds, cacheKinds []string
	switch a.prop {
	case "C03":
		mapKinds = []string{"Map"}
	case "C04", "C10":
		mapKinds = []string{"MapOf[int,val]", "MapOf[string,val]/const", "MapOf[skey,val]/sameh1", "MapOf[string,val]"}
	case "C01", "C02":
		cacheKinds = []string{"Cache", "CacheOf[int,val]"}
	case "C12":
		mapKinds = []string{"Map", "MapOf[string,any]"}
		cacheKinds = []string{"Cache", "CacheOf[string,any]"}
	case "C11":
		mapKinds = []string{"Map", "MapOf[int,val]"}
	case "C13":
		mapKinds = []string{"Map", "MapOf[int,val]"}
		cacheKinds = []string{"Cache", "CacheOf[int,val]"}
	default:
		return
	}
	for _, kind := range mapKinds {
		for _, rd := range mapHarassReaders() {
			for _, finale := range []string{"delete+reuse", "delete", "delete+reinsert"} {
				*unit++
				if !a.mine(*unit - 1) {
					continue
				}
				harassMap(res, kind, rd, finale, stuckCh)
			}
		}
	}
	for _, kind := range cacheKinds {
		for _, rk := range []uint8{cGet, cGetWithExpiration, cGetWithTTL} {
			*unit++
			if !a.mine(*unit - 1) {
				continue
			}
			harassCache(res, kind, rk, stuckCh)
		}
	}
}

// traverseVsClear: three parties. A Delete (or an overwrite) of key X is parked at
// each of its steps - also in the middle of its critical section, holding X's
// bucket. A Range is started and parked right after it has picked up the table. Clear
// runs to completion (it needs no bucket lock) and replaces the table. The Range is
// resumed: it walks the retired table, where it must still take X's bucket lock and
// therefore waits for the parked writer (which is then resumed), or finds the bucket
// untouched. Whatever it visits must be whole: a key with a value stored under it,
// each key at most once, no panic.
func traverseVsClear(res *result, kind string, writer string, stuckCh chan string) {
	const X = 7
	const nkeys = 40
	for N := int64(1); N < 60; N++ {
		sp := mapSpec{Flavor: kind, Hint: noHint, NKeys: 256}
		if i := indexByte(kind, '/'); i >= 0 {
			sp.Flavor, sp.Hasher = kind[:i], kind[i+1:]
		}
		m := newMap(sp)
		for k := 0; k < nkeys; k++ {
			m.Store(k, nextVal(k))
		}
		logCase("traverse-vs-clear %s writer=%s N=%d", kind, writer, N)
		res.Evaluations++
		vshim.SetTokenMode(true)
		vshim.ResetGStep()
		vshim.SetStepBudget(0)
		vshim.SetMode(vshim.MGlobal | vshim.MPoll | vshim.MCount)
		wdone := make(chan struct{})
		vshim.ArmPark(N)
		go func() {
			if writer == "delete" {
				m.Delete(X)
			} else {
				m.Store(X, nextVal(X))
			}
			close(wdone)
		}()
		var wtok *vshim.ParkToken
		select {
		case wtok = <-vshim.ParkedTokens():
		case <-wdone:
		}
		vshim.ArmPark(0)
		if wtok == nil {
			vshim.SetMode(0)
			return // the writer finished before step N: enumeration complete
		}
		// the traversal: parked after its first step (it has read the table pointer)
		type visit struct {
			k int
			v any
		}
		var visits []visit
		panicked := ""
		rdone := make(chan struct{})
		vshim.ArmPark(vshim.GStep() + 2)
		go func() {
			defer close(rdone)
			defer func() {
				if p := recover(); p != nil {
					panicked = fmt.Sprint(p)
				}
			}()
			m.Range(func(k int, v any) bool {
				visits = append(visits, visit{k, v})
				return true
			})
		}()
		var rtok *vshim.ParkToken
		rFinished := false
		select {
		case rtok = <-vshim.ParkedTokens():
		case <-rdone:
			rFinished = true
		}
		vshim.ArmPark(0)
		stuck := ""
		// Clear needs no bucket lock: it completes although the writer is parked
		cdone := make(chan struct{})
		vshim.ArmSpinNotify()
		vshim.SetStepBudget(1 << 22)
		go func() { m.Clear(); close(cdone) }()
		clearWaits := false
		select {
		case <-cdone:
		case <-vshim.SpinNotified():
			clearWaits = true
		case stuck = <-stuckCh:
		}
		vshim.DisarmSpinNotify()
		// resume the traversal; if it has to wait for the writer's bucket, resume the writer
		if rtok != nil {
			vshim.ArmSpinNotify()
			rtok.Resume()
			select {
			case <-rdone:
				rFinished = true
			case <-vshim.SpinNotified():
			case stuck = <-stuckCh:
			}
			vshim.DisarmSpinNotify()
		}
		wtok.Resume()
		for stuck == "" && !(rFinished && wdone == nil && cdone == nil) {
			rd := rdone
			if rFinished {
				rd = nil
			}
			select {
			case <-rd:
				rFinished = true
			case <-wdone:
				wdone = nil
			case <-cdone:
				cdone = nil
			case late := <-vshim.ParkedTokens():
				late.Resume()
			case stuck = <-stuckCh:
			}
			if cdone != nil {
				select {
				case <-cdone:
					cdone = nil
				default:
				}
			}
		}
		vshim.SetStepBudget(0)
		vshim.SetMode(0)
		_ = clearWaits
		res.count("traverse_vs_clear_scenarios", 1)
		fp := newFP()
		fp.addStr("traverse-vs-clear" + kind + writer)
		fp.add(uint64(N))
		res.nontrivial(fp.sum())
		bad := func(sig, msg string) {
			res.violate(violation{Class: "harass", Sig: sig, Msg: fmt.Sprintf("%s, %s(k%d) parked at its step %d, Range started, Clear completed, Range resumed: %s", kind, writer, X, N, msg),
				Case: map[string]any{"kind": kind, "writer": writer, "N": N}})
		}
		if stuck != "" {
			bad("a call does not return when a writer was suspended while a traversal and a Clear overlap it", stuck)
			return
		}
		if panicked != "" {
			bad("Range panics when the table is cleared while a writer is inside its bucket", panicked)
			return
		}
		seen := map[int]bool{}
		for _, vv := range visits {
			if seen[vv.k] {
				bad("Range visits a key twice in one traversal", fmt.Sprintf("k%d", vv.k))
				return
			}
			seen[vv.k] = true
			x, isVal := vv.v.(val)
			if vv.k < 0 || !isVal || !x.ok() || int(x.K) != vv.k {
				bad("Range visits a key with a value that was not stored under it", fmt.Sprintf("(k%d, %s)", vv.k, fmtVal(vv.v)))
				return
			}
		}
	}
}
