package main

import (
	"fmt"
	"math"
	"reflect"
	"sort"
	"sync/atomic"
	"time"

	cache "github.com/fufuok/cache"
	"github.com/fufuok/cache/zzverif/vshim"
)

// Sequential lock-step differential engine for Cache / CacheOf under the
// virtual clock. One PRNG call sequence is applied to 1..n instances and to
// the executable TTL model; every return value, visitor argument list,
// callback ledger, Items() and Count() is compared after each call.

type cop struct {
	Op     string        `json:"op"`
	K      int           `json:"k,omitempty"`
	V      any           `json:"-"`
	VS     string        `json:"v,omitempty"`
	D      time.Duration `json:"d,omitempty"`
	Fn     string        `json:"fn,omitempty"` // Compute: set | del | delnz | cond
	StopAt int           `json:"stop,omitempty"`
	Now    int64         `json:"now,omitempty"` // clock: absolute instant to move to
	CbID   int           `json:"cb,omitempty"`
	CbMode string        `json:"cbmode,omitempty"` // "" | once (unregisters itself when first invoked) | adv (takes longer than short TTLs: moves the clock) | probe (calls Count() from inside)
}

type kvp struct {
	K int
	V any
}

type cbrec struct {
	K  int
	V  any
	ID int // which installed callback
	N  int // "probe" callbacks: Count() observed from inside the callback, +1 (0: not probed)
}

type cres struct {
	V, FnOld        any
	OK, FnLoaded, B bool
	T               time.Time
	TTL, D          time.Duration
	N, FnCalls, Unk int
	Visited         []kvp
	Items           map[int]any
	Cbs             []cbrec
	Count           int
	Panic           string
}

type ment struct {
	v         any
	e         int64
	maybeGone bool
}

type ttlModel struct {
	m        map[int]*ment
	def      time.Duration
	defKnown bool // DefaultExpiration() must report def exactly
	cbID     int
	cbMode   string
}

// cbAdvance: how far an "adv" callback moves the clock (longer than the short TTLs in play)
const cbAdvance = 40

func (m *ttlModel) exp(d time.Duration, now int64) int64 {
	if d == cache.DefaultExpiration {
		d = m.def
	}
	if d > 0 {
		if now+int64(d) < now {
			// call time + d lies beyond what int64 nanoseconds can express (year 2262):
			// the instant is unspecified, but it is certainly not in the past - the
			// entry must stay visible for any observable time
			return farFuture
		}
		return now + int64(d)
	}
	return 0
}

// farFuture marks an expiry instant beyond the representable range: visibility
// is checked, the reported instant / remaining time is not.
const farFuture = int64(math.MaxInt64)

func (m *ttlModel) vis(k int, now int64) (*ment, bool) {
	e := m.m[k]
	if e == nil {
		return nil, false
	}
	if e.e == 0 || now <= e.e {
		return e, true
	}
	return e, false
}

func (m *ttlModel) live(now int64) map[int]any {
	r := map[int]any{}
	for k := range m.m {
		if e, ok := m.vis(k, now); ok {
			r[k] = e.v
		}
	}
	return r
}

// state class of a key for coverage accounting
func (m *ttlModel) class(k int, now int64) string {
	e := m.m[k]
	switch {
	case e == nil:
		return "absent"
	case e.e == 0:
		return "live-forever"
	case now < e.e:
		return "live"
	case now == e.e:
		return "at-boundary"
	default:
		return "expired-uncleaned"
	}
}

type seqInst struct {
	c        cacheAPI
	cbs      []cbrec
	count    int   // Count() after the previous op
	advTo    int64 // "adv" callbacks move the virtual clock to this instant (0: leave it)
	onceDone bool  // "once" callbacks unregister themselves on their first invocation
}

type seqCase struct {
	Specs     []cacheSpec
	NKeys     int
	NOps      int
	Gen       func(m *ttlModel, now int64, step int) cop // state-aware generator
	Ops       []cop                                      // what was generated (for reports)
	Exotic    bool
	Twin      bool // instances are compared with each other on every field
	FullEach  int  // full Items comparison every n ops
	BoundEach int  // Count bound / walked size comparison every n ops (1 = always)
	Desc      string
}

var ttlCatalogue = []time.Duration{
	cache.NoExpiration, cache.DefaultExpiration,
	cache.NoExpiration - 1, cache.NoExpiration + 1, cache.DefaultExpiration - 1, cache.DefaultExpiration + 1,
	math.MinInt64, -1, 0, 1, 2, time.Microsecond, time.Millisecond, time.Second, time.Hour, 100 * 365 * 24 * time.Hour,
}

var defCatalogue = []time.Duration{
	cache.NoExpiration, cache.DefaultExpiration, math.MinInt64, -1, 0, 1, 2, time.Millisecond, time.Second, time.Hour,
	cache.NoExpiration + 1, 100 * 365 * 24 * time.Hour,
}

func ttlClass(d time.Duration) string {
	switch {
	case d == cache.NoExpiration:
		return "NoExpiration"
	case d == cache.DefaultExpiration:
		return "Default"
	case d < 0:
		return "neg"
	case d == 0:
		return "zero"
	case d <= 2:
		return "tiny"
	default:
		return "pos"
	}
}

var exoticPtrs = func() []*int {
	p := make([]*int, 8)
	for i := range p {
		x := i
		p[i] = &x
	}
	return p
}()

// veq compares two values the way a user would: identical if they are == ; the
// two signed zeros are different values; uncomparable values (slices, maps) are
// compared by contents (every generated one is unique by contents).
func veq(a, b any) (eq bool) {
	if fa, ok := a.(float64); ok {
		fb, ok := b.(float64)
		return ok && math.Float64bits(fa) == math.Float64bits(fb)
	}
	defer func() {
		if recover() != nil {
			eq = reflect.DeepEqual(a, b)
		}
	}()
	return a == b
}

// genValueU adds values whose dynamic type is not comparable, and signed zeros,
// to the exotic catalogue (twin mode: any-valued containers only).
func genValueU(k int, id int64) any {
	switch id % 11 {
	case 7:
		return []int{int(id), k}
	case 8:
		return map[int]int{k: int(id)}
	case 9:
		if id%2 == 0 {
			return math.Copysign(0, -1)
		}
		return 0.0
	case 10:
		return []string{fmt.Sprint(id)}
	}
	return genValue(true, k, id)
}

func genValue(exotic bool, k int, id int64) any {
	if !exotic {
		return mkVal(k, id)
	}
	switch id % 7 {
	case 0:
		return nil
	case 1:
		return int(id)
	case 2:
		return fmt.Sprintf("s%d", id)
	case 3:
		return exoticPtrs[id%8]
	case 4:
		return float64(id) / 2
	case 5:
		return [2]int{int(id), k}
	default:
		return mkVal(k, id)
	}
}

const epoch = int64(1_700_000_000_000_000_000)

type seqRunner struct {
	caseIdx int64
	res     *result
	prop    string
	classes map[string]bool // violation classes reported for this property
}

func (sr *seqRunner) report(class, sig, msg string, cs *seqCase, step int) {
	if !sr.classes[class] && class != "panic" {
		sr.res.count("other_class_"+class, 1)
		return
	}
	ops := cs.Ops
	if step+1 < len(ops) {
		ops = ops[:step+1]
	}
	// keep the replay small: the tail of the sequence is enough to read, the
	// seed/case index reproduces the whole
	show := ops
	if len(show) > 60 {
		show = show[len(show)-60:]
	}
	for i := range show {
		show[i].VS = fmtVal(show[i].V)
	}
	sr.res.violate(violation{Class: class, Sig: sig, Msg: msg,
		Case: map[string]any{"case_index": sr.caseIdx, "desc": cs.Desc, "specs": specStrings(cs.Specs), "nkeys": cs.NKeys, "step": step, "ops_tail": show}})
}

func specStrings(sp []cacheSpec) []string {
	r := make([]string, len(sp))
	for i, s := range sp {
		r[i] = fmt.Sprintf("%s/%s exp=%d int=%d cap=%d mask=%d cb=%v", s.Flavor, s.Ctor, s.DefExp, s.Interval, s.MinCap, s.OptMask, s.Callback != nil)
		if s.PreMask&s.OptMask != 0 {
			r[i] += fmt.Sprintf(" preceded-by(mask=%d exp=%d int=%d cap=%d)", s.PreMask&s.OptMask, s.PreDefExp, s.PreInterval, s.PreMinCap)
		}
	}
	return r
}

func applyCop(in *seqInst, op cop, exotic bool) (r cres) {
	defer func() {
		if p := recover(); p != nil {
			r.Panic = fmt.Sprint(p)
		}
	}()
	c := in.c
	in.cbs = in.cbs[:0]
	switch op.Op {
	case "Set":
		c.Set(op.K, op.V, op.D)
	case "SetDefault":
		c.SetDefault(op.K, op.V)
	case "SetForever":
		c.SetForever(op.K, op.V)
	case "Get":
		r.V, r.OK = c.Get(op.K)
	case "GetWithExpiration":
		r.V, r.T, r.OK = c.GetWithExpiration(op.K)
	case "GetWithTTL":
		r.V, r.TTL, r.OK = c.GetWithTTL(op.K)
	case "GetOrSet":
		r.V, r.OK = c.GetOrSet(op.K, op.V, op.D)
	case "GetAndSet":
		r.V, r.OK = c.GetAndSet(op.K, op.V, op.D)
	case "GetAndRefresh":
		r.V, r.OK = c.GetAndRefresh(op.K, op.D)
	case "GetOrCompute":
		r.V, r.OK = c.GetOrCompute(op.K, func() any { r.FnCalls++; return op.V }, op.D)
	case "Compute":
		r.V, r.OK = c.Compute(op.K, func(old any, loaded bool) (any, bool) {
			r.FnCalls++
			r.FnOld, r.FnLoaded = old, loaded
			switch op.Fn {
			case "del":
				return c.Zero(), true
			case "delnz":
				return op.V, true
			case "cond":
				if loaded {
					return op.V, true
				}
				return op.V, false
			}
			return op.V, false
		}, op.D)
	case "GetAndDelete":
		r.V, r.OK = c.GetAndDelete(op.K)
	case "Delete":
		c.Delete(op.K)
	case "DeleteExpired":
		c.DeleteExpired()
	case "Range":
		n := 0
		c.Range(func(k int, v any) bool {
			n++
			r.Visited = append(r.Visited, kvp{k, v})
			return op.StopAt == 0 || n < op.StopAt
		})
	case "RangeAdv":
		// the visitor moves the clock past some expiry instants on its first call
		start := vshim.VNow()
		first := true
		c.Range(func(k int, v any) bool {
			r.Visited = append(r.Visited, kvp{k, v})
			if first {
				first = false
				vshim.SetVNow(op.Now)
			}
			return true
		})
		vshim.SetVNow(start) // every instance starts its traversal at the same instant
	case "RangeNil":
		c.RangeNil()
	case "Items":
		r.Items = c.Items()
		r.Unk = c.ItemsUnknown()
	case "Clear":
		c.Clear()
	case "Count":
		r.N = c.Count()
	case "DefaultExpiration":
		r.D = c.DefaultExpiration()
	case "SetDefaultExpiration":
		c.SetDefaultExpiration(op.D)
	case "HasCallback":
		r.B = c.HasEvictedCallback()
	case "SetCallback":
		if op.CbID == 0 {
			c.SetEvictedCallback(nil)
		} else {
			id, mode := op.CbID, op.CbMode
			in.onceDone = false
			c.SetEvictedCallback(func(k int, v any) {
				rec := cbrec{K: k, V: v, ID: id}
				if mode == "probe" {
					rec.N = c.Count() + 1 // a callback may call back in; twins must see the same
				}
				in.cbs = append(in.cbs, rec)
				switch mode {
				case "once":
					if !in.onceDone {
						in.onceDone = true
						c.SetEvictedCallback(nil)
					}
				case "adv":
					if in.advTo != 0 {
						vshim.SetVNow(in.advTo)
					}
				}
			})
		}
	case "Clock":
		// handled by the engine
	default:
		panic("unknown op " + op.Op)
	}
	r.Cbs = append([]cbrec(nil), in.cbs...)
	r.Count = c.Count()
	return r
}

// runSeqCase executes one case; returns whether it touched a non-live entry
// (non-triviality for the TTL properties) and the case fingerprint.
func (sr *seqRunner) runSeqCase(cs *seqCase) (nontrivial bool, fp uint64) {
	res := sr.res
	vshim.SetVirtual(true)
	vshim.SetVNow(epoch)
	now := epoch
	insts := make([]*seqInst, len(cs.Specs))
	for i := range cs.Specs {
		sp := cs.Specs[i]
		in := &seqInst{}
		sp.NKeys = cs.NKeys
		if sp.Callback != nil {
			sp.Callback = func(k int, v any) { in.cbs = append(in.cbs, cbrec{K: k, V: v, ID: 1}) }
		}
		in.c = newCache(sp)
		insts[i] = in
	}
	defExp, _, hasCb := cs.Specs[0].effective()
	mdl := &ttlModel{m: map[int]*ment{}, def: defExp, defKnown: defExp >= 1}
	if defExp < 1 {
		mdl.def = cache.NoExpiration // documented normalisation: behaves as never
	}
	if hasCb {
		mdl.cbID = 1
	}
	h := newFP()
	bad := func(class, sig, format string, step int, a ...any) {
		sr.report(class, sig, fmt.Sprintf(format, a...), cs, step)
	}
	if cs.BoundEach <= 0 {
		cs.BoundEach = 1
	}
	for step := 0; step < cs.NOps; step++ {
		op := cs.Gen(mdl, now, step)
		if op.Op == "" {
			break
		}
		if opHook != nil {
			opHook()
		}
		cs.Ops = append(cs.Ops, op)
		if op.Op == "Clock" {
			now = op.Now
			vshim.SetVNow(now)
			h.add(0xC10C, uint64(now-epoch))
			continue
		}
		h.addStr(op.Op)
		h.add(uint64(op.K), uint64(op.D))
		kclass := mdl.class(op.K, now)
		keyed := true
		switch op.Op {
		case "DeleteExpired", "Range", "RangeAdv", "RangeNil", "Items", "Clear", "Count", "DefaultExpiration", "SetDefaultExpiration", "HasCallback", "SetCallback":
			keyed = false
		}
		if keyed {
			res.count("cell:"+op.Op+"/"+kclass, 1)
			if kclass == "expired-uncleaned" || kclass == "at-boundary" {
				nontrivial = true
			}
		}
		// expired entries present at this moment (for DeleteExpired / bounds)
		var rs []cres
		for _, in := range insts {
			in.advTo = 0
			if mdl.cbMode == "adv" {
				in.advTo = now + cbAdvance
			}
			rs = append(rs, applyCop(in, op, cs.Exotic))
			vshim.SetVNow(now) // every instance starts every call at the same instant
		}
		cbFired := len(rs) > 0 && len(rs[0].Cbs) > 0
		prevCount0 := insts[0].count
		e, hit := mdl.vis(op.K, now)
		if !keyed {
			e, hit = nil, false
		}
		for ii, r := range rs {
			in := insts[ii]
			name := in.c.Name()
			zero := in.c.Zero()
			if r.Panic != "" {
				bad("panic", "panic in "+op.Op, "%s: %s panicked: %s", step, name, op.Op, r.Panic)
				return
			}
			val := func(want any, wantOK bool) {
				if r.OK != wantOK || !veq(r.V, want) {
					st := "absent"
					if keyed {
						st = kclass
					}
					bad("value", fmt.Sprintf("%s on %s entry returns wrong value/flag", op.Op, st),
						"%s: %s(k%d) on %s entry returned (%s,%v), model says (%s,%v)", step, name, op.Op, op.K, st, fmtVal(r.V), r.OK, fmtVal(want), wantOK)
				}
			}
			switch op.Op {
			case "Get":
				if hit {
					val(e.v, true)
				} else {
					val(zero, false)
				}
			case "GetWithExpiration":
				if hit {
					val(e.v, true)
					if e.e == farFuture {
						// unspecified instant
					} else if e.e == 0 {
						if !r.T.IsZero() {
							bad("expiry", "GetWithExpiration reports an instant for a never-expiring entry", "%s: GetWithExpiration(k%d) = %v, want zero time", step, name, op.K, r.T)
						}
					} else if r.T.IsZero() || r.T.UnixNano() != e.e {
						bad("expiry", "GetWithExpiration reports wrong instant", "%s: GetWithExpiration(k%d) = %d (zero=%v), model %d (now %d)", step, name, op.K, r.T.UnixNano()-epoch, r.T.IsZero(), e.e-epoch, now-epoch)
					}
				} else {
					val(zero, false)
				}
			case "GetWithTTL":
				if hit {
					val(e.v, true)
					want := cache.NoExpiration
					if e.e != 0 {
						want = time.Duration(e.e - now)
					}
					if r.TTL != want && e.e != farFuture {
						bad("expiry", "GetWithTTL reports wrong remaining time", "%s: GetWithTTL(k%d) = %d, model %d", step, name, op.K, r.TTL, want)
					}
				} else {
					val(zero, false)
				}
			case "GetOrSet":
				if hit {
					val(e.v, true)
				} else {
					val(op.V, false)
				}
			case "GetAndSet":
				if hit {
					val(e.v, true)
				} else {
					val(op.V, false)
				}
			case "GetAndRefresh":
				if hit {
					val(e.v, true)
				} else {
					val(zero, false)
				}
			case "GetOrCompute":
				if hit {
					val(e.v, true)
					if r.FnCalls != 0 {
						bad("value", "GetOrCompute calls valueFn although a live value exists", "%s: GetOrCompute(k%d) called valueFn %d times on a live entry", step, name, op.K, r.FnCalls)
					}
				} else {
					val(op.V, false)
					if r.FnCalls != 1 {
						bad("value", "GetOrCompute valueFn call count on miss", "%s: GetOrCompute(k%d) called valueFn %d times on a miss", step, name, op.K, r.FnCalls)
					}
				}
			case "Compute":
				if r.FnCalls != 1 {
					bad("value", "Compute valueFn call count", "%s: Compute(k%d) called valueFn %d times", step, name, op.K, r.FnCalls)
				}
				wantOld, wantLoaded := zero, false
				if hit {
					wantOld, wantLoaded = e.v, true
				}
				if r.FnCalls >= 1 && (!veq(r.FnOld, wantOld) || r.FnLoaded != wantLoaded) {
					bad("value", fmt.Sprintf("Compute hands wrong old value on %s entry", kclass), "%s: Compute(k%d) valueFn saw (%s,%v), model (%s,%v)", step, name, op.K, fmtVal(r.FnOld), r.FnLoaded, fmtVal(wantOld), wantLoaded)
				}
				del := op.Fn == "del" || op.Fn == "delnz" || (op.Fn == "cond" && hit)
				if del {
					val(wantOld, false)
				} else {
					val(op.V, true)
				}
			case "GetAndDelete":
				if hit {
					val(e.v, true)
				} else {
					val(zero, false)
				}
			case "Range":
				liveNow := mdl.live(now)
				seen := map[int]bool{}
				for _, kv := range r.Visited {
					want, ok := liveNow[kv.K]
					switch {
					case kv.K < 0:
						bad("range", "Range visits a key that was never stored", "%s: Range visited an unknown key", step, name)
					case seen[kv.K]:
						bad("range", "Range visits a key twice", "%s: Range visited k%d twice", step, name, kv.K)
					case !ok:
						bad("range", "Range visits "+mdl.class(kv.K, now)+" entry", "%s: Range visited k%d which is %s in the model", step, name, kv.K, mdl.class(kv.K, now))
					case !veq(want, kv.V):
						bad("range", "Range visits a stale/foreign value", "%s: Range visited k%d=%s, model %s", step, name, kv.K, fmtVal(kv.V), fmtVal(want))
					}
					seen[kv.K] = true
				}
				wantN := len(liveNow)
				if op.StopAt > 0 && op.StopAt < wantN {
					wantN = op.StopAt
				}
				if len(r.Visited) != wantN {
					bad("range", "Range visit count", "%s: Range (stop=%d) made %d visits, model has %d live entries => want %d", step, name, op.StopAt, len(r.Visited), len(liveNow), wantN)
				}
			case "RangeAdv":
				// entries unexpired when the traversal began may be visited; those that stay
				// unexpired until the end must be
				atStart, atEnd := mdl.live(now), mdl.live(op.Now)
				seen := map[int]bool{}
				for _, kv := range r.Visited {
					want, ok := atStart[kv.K]
					switch {
					case kv.K < 0 || !ok:
						bad("range", "Range visits an entry that was not live when the traversal began", "%s: Range visited k%d (%s)", step, name, kv.K, mdl.class(kv.K, now))
					case seen[kv.K]:
						bad("range", "Range visits a key twice", "%s: Range visited k%d twice", step, name, kv.K)
					case !veq(want, kv.V):
						bad("range", "Range visits a stale/foreign value", "%s: Range visited k%d=%s, model %s", step, name, kv.K, fmtVal(kv.V), fmtVal(want))
					}
					seen[kv.K] = true
				}
				for k := range atEnd {
					if _, ok := atStart[k]; ok && !seen[k] {
						bad("range", "Range misses an entry that stayed unexpired for the whole traversal", "%s: k%d not visited although live before and after the clock moved", step, name, k)
					}
				}
			case "Items":
				liveNow := mdl.live(now)
				if r.Unk != 0 || !sameItems(r.Items, liveNow) {
					bad("range", "Items differs from the live entries", "%s: Items() = %s (+%d unknown), model %s", step, name, fmtItems(r.Items), r.Unk, fmtItems(liveNow))
				}
			case "Count":
				if r.N != r.Count {
					bad("count", "Count unstable without modification", "%s: two consecutive Count() calls returned %d and %d", step, name, r.N, r.Count)
				}
			case "DefaultExpiration":
				if mdl.defKnown {
					if r.D != mdl.def {
						bad("expiry", "DefaultExpiration() reports wrong default", "%s: DefaultExpiration() = %d, want %d", step, name, r.D, mdl.def)
					}
				} else if r.D >= 1 {
					bad("expiry", "DefaultExpiration() positive for a default below 1ns", "%s: DefaultExpiration() = %d for a configured default < 1ns", step, name, r.D)
				}
			case "HasCallback":
				if r.B != (mdl.cbID != 0) {
					bad("callback", "EvictedCallback() nil-ness", "%s: EvictedCallback()!=nil is %v, model %v", step, name, r.B, mdl.cbID != 0)
				}
			}
			// ---- callbacks
			switch op.Op {
			case "Delete", "GetAndDelete":
				me := mdl.m[op.K]
				if mdl.cbID != 0 {
					if len(r.Cbs) != in.count-r.Count {
						bad("callback", op.Op+": callbacks != entries removed", "%s: %s(k%d) fired %d callbacks, Count went %d -> %d", step, name, op.Op, op.K, len(r.Cbs), in.count, r.Count)
					}
					// (whether Delete / GetAndDelete also drop an entry that has already expired is
					// not specified: only a live entry must be removed and reported)
					if hit && len(r.Cbs) != 1 {
						bad("callback", op.Op+" of a present entry fires no/duplicate callback", "%s: %s(k%d) on a %s entry fired %d callbacks", step, name, op.Op, op.K, kclass, len(r.Cbs))
					}
				} else if len(r.Cbs) != 0 {
					bad("callback", "callback fired although none is installed", "%s: %s fired %d callbacks with no callback installed", step, name, op.Op, len(r.Cbs))
				}
				for _, cb := range r.Cbs {
					if cb.K != op.K || me == nil || !veq(cb.V, me.v) {
						bad("callback", op.Op+" callback with wrong key/value", "%s: %s(k%d) fired callback (k%d,%s), model entry %v", step, name, op.Op, op.K, cb.K, fmtVal(cb.V), me)
					}
					if cb.ID != mdl.cbID {
						bad("callback", "callback not the one in force", "%s: %s fired callback #%d, in force #%d", step, name, op.Op, cb.ID, mdl.cbID)
					}
				}
				if op.Op == "GetAndDelete" && r.OK && mdl.cbID != 0 && len(r.Cbs) != 1 {
					bad("callback", "GetAndDelete loaded without exactly one callback", "%s: GetAndDelete(k%d) loaded, %d callbacks", step, name, op.K, len(r.Cbs))
				}
				if in.count-r.Count < 0 || in.count-r.Count > 1 {
					bad("count", op.Op+" changes Count by other than 0/-1", "%s: %s(k%d): Count %d -> %d", step, name, op.Op, op.K, in.count, r.Count)
				}
				if hit && in.count-r.Count != 1 {
					bad("count", op.Op+" of a present entry does not lower Count", "%s: %s(k%d) on %s entry: Count %d -> %d", step, name, op.Op, op.K, kclass, in.count, r.Count)
				}
			case "DeleteExpired":
				seen := map[int]bool{}
				for _, cb := range r.Cbs {
					me, vis := mdl.vis(cb.K, now)
					switch {
					case cb.K < 0 || me == nil:
						bad("callback", "DeleteExpired callback for an entry that does not exist", "%s: DeleteExpired fired (k%d,%s), no such entry", step, name, cb.K, fmtVal(cb.V))
					case vis:
						bad("callback", "DeleteExpired callback for an unexpired entry", "%s: DeleteExpired fired (k%d,%s) but the entry is live", step, name, cb.K, fmtVal(cb.V))
					case !veq(me.v, cb.V):
						bad("callback", "DeleteExpired callback with wrong value", "%s: DeleteExpired fired (k%d,%s), entry holds %s", step, name, cb.K, fmtVal(cb.V), fmtVal(me.v))
					case seen[cb.K]:
						bad("callback", "DeleteExpired duplicate callback", "%s: DeleteExpired fired k%d twice", step, name, cb.K)
					}
					seen[cb.K] = true
					if cb.ID != mdl.cbID {
						bad("callback", "callback not the one in force", "%s: DeleteExpired fired callback #%d, in force #%d", step, name, cb.ID, mdl.cbID)
					}
				}
				if mdl.cbID != 0 && mdl.cbMode == "once" {
					// the callback unregisters itself mid-pass: either binding is acceptable
					if len(r.Cbs) < 1 && in.count-r.Count > 0 {
						bad("callback", "DeleteExpired removes entries without any callback", "%s: DeleteExpired removed %d entries, fired none", step, name, in.count-r.Count)
					}
				} else if mdl.cbID != 0 {
					if len(r.Cbs) != in.count-r.Count {
						bad("callback", "DeleteExpired: callbacks != entries removed", "%s: DeleteExpired fired %d callbacks, Count went %d -> %d", step, name, len(r.Cbs), in.count, r.Count)
					}
					// every expired entry that is certainly still present must be reported
					for k, me := range mdl.m {
						if _, vis := mdl.vis(k, now); !vis && !me.maybeGone && !seen[k] {
							bad("callback", "DeleteExpired removes an expired entry without callback", "%s: DeleteExpired: expired k%d not reported", step, name, k)
						}
					}
				} else if len(r.Cbs) != 0 {
					bad("callback", "callback fired although none is installed", "%s: DeleteExpired fired %d callbacks with none installed", step, name, len(r.Cbs))
				}
			case "SetCallback":
			default:
				if len(r.Cbs) != 0 {
					bad("callback", op.Op+" fires the evicted callback", "%s: %s fired %d callbacks (first k%d)", step, name, op.Op, len(r.Cbs), r.Cbs[0].K)
				}
			}
			in.count = r.Count
		}
		// ---- twin comparison: every observable field equal
		if cs.Twin && len(rs) > 1 {
			a := rs[0]
			// Count is compared between twins only while no expired entry is
			// waiting for cleanup: which of those a call drops on the way
			// (a traversal stopped early, say) may depend on iteration order,
			// and the per-instance bounds below cover that case.
			stale := false
			tnow := now
			if op.Op == "RangeAdv" && op.Now > tnow {
				tnow = op.Now
			}
			for k := range mdl.m {
				if _, vis := mdl.vis(k, tnow); !vis {
					stale = true
					break
				}
			}
			for j := 1; j < len(rs); j++ {
				b := rs[j]
				if d := diffRes(a, b, op.StopAt > 0, !stale); d != "" {
					bad("twin", "twins differ in "+op.Op+": "+firstWord(d), "%s vs %s: %s differs: %s", step, insts[0].c.Name(), insts[j].c.Name(), op.Op, d)
				}
			}
		}
		// ---- commit to the model
		switch op.Op {
		case "Set", "SetDefault", "SetForever":
			d := op.D
			if op.Op == "SetDefault" {
				d = cache.DefaultExpiration
			} else if op.Op == "SetForever" {
				d = cache.NoExpiration
			}
			mdl.m[op.K] = &ment{v: op.V, e: mdl.exp(d, now)}
		case "Get", "GetWithExpiration", "GetWithTTL":
			if e != nil && !hit {
				e.maybeGone = true
			}
		case "GetOrSet", "GetOrCompute":
			if !hit {
				mdl.m[op.K] = &ment{v: op.V, e: mdl.exp(op.D, now)}
			}
		case "GetAndSet":
			mdl.m[op.K] = &ment{v: op.V, e: mdl.exp(op.D, now)}
		case "GetAndRefresh":
			if hit {
				e.e = mdl.exp(op.D, now)
			} else if e != nil {
				e.maybeGone = true
			}
		case "Compute":
			del := op.Fn == "del" || op.Fn == "delnz" || (op.Fn == "cond" && hit)
			if del {
				if hit {
					delete(mdl.m, op.K)
				} else if e != nil {
					e.maybeGone = true
				}
			} else {
				mdl.m[op.K] = &ment{v: op.V, e: mdl.exp(op.D, now)}
			}
		case "GetAndDelete", "Delete":
			if hit || e == nil {
				delete(mdl.m, op.K)
			} else if len(rs) > 0 && rs[0].Count < prevCount0 {
				delete(mdl.m, op.K) // the expired entry was physically removed (Count went down)
			} else {
				e.maybeGone = true // an expired entry may or may not be dropped by Delete
			}
		case "DeleteExpired":
			for k := range mdl.m {
				if _, vis := mdl.vis(k, now); !vis {
					delete(mdl.m, k)
				}
			}
		case "Clear":
			mdl.m = map[int]*ment{}
		case "SetDefaultExpiration":
			mdl.def, mdl.defKnown = op.D, true
		case "SetCallback":
			mdl.cbID, mdl.cbMode = op.CbID, op.CbMode
			if op.CbID == 0 {
				mdl.cbMode = ""
			}
		case "RangeAdv":
			now = op.Now
			vshim.SetVNow(now)
			for k, me := range mdl.m {
				if _, vis := mdl.vis(k, now); !vis {
					me.maybeGone = true
				}
			}
		case "Range", "Items":
			// a traversal may clean expired entries it meets
			for k, me := range mdl.m {
				if _, vis := mdl.vis(k, now); !vis {
					me.maybeGone = true
				}
			}
		}
		// ---- side effects of callback behaviours
		if cbFired && op.Op != "SetCallback" {
			switch mdl.cbMode {
			case "once":
				mdl.cbID, mdl.cbMode = 0, ""
			case "adv":
				now += cbAdvance
				vshim.SetVNow(now)
				h.add(0xADF, uint64(now-epoch))
			}
		}
		// ---- Count bounds after the call
		exact := op.Op == "DeleteExpired" || op.Op == "Clear"
		doBounds := exact || step%cs.BoundEach == 0 || step == cs.NOps-1
		nlive, nall, ngone := 0, len(mdl.m), 0
		if doBounds {
			for k, me := range mdl.m {
				if _, vis := mdl.vis(k, now); vis {
					nlive++
				} else if me.maybeGone {
					ngone++
				}
			}
		}
		for ii, r := range rs {
			if !doBounds {
				break
			}
			name := insts[ii].c.Name()
			if r.Count < nlive {
				bad("count", "Count under-reports the live entries", "%s: after %s Count()=%d < %d live entries", step, name, op.Op, r.Count, nlive)
			} else if r.Count > nall || r.Count < nall-ngone {
				bad("count", "Count differs from entries physically present after "+op.Op, "%s: after %s Count()=%d, model: %d live + %d expired-uncleaned (%d possibly lazily removed)", step, name, op.Op, r.Count, nlive, nall-nlive, ngone)
			}
			if st, ok := insts[ii].c.Stats(); ok && st.Size != r.Count {
				bad("count", "Count differs from walked table size", "%s: after %s Count()=%d but the table holds %d entries", step, name, op.Op, r.Count, st.Size)
			}
		}
		// ---- periodic full comparison
		if cs.FullEach > 0 && (step%cs.FullEach == cs.FullEach-1 || step == cs.NOps-1) {
			liveNow := mdl.live(now)
			for k, me := range mdl.m {
				if _, vis := mdl.vis(k, now); !vis {
					me.maybeGone = true
				}
			}
			for _, in := range insts {
				it := in.c.Items()
				if in.c.ItemsUnknown() != 0 || !sameItems(it, liveNow) {
					bad("value", "contents differ from the model after "+op.Op, "%s: after %s Items() = %s, model %s", step, in.c.Name(), op.Op, fmtItems(it), fmtItems(liveNow))
				}
				in.count = in.c.Count() // the harness's own traversal may have cleaned expired entries
			}
		}
	}
	if n := atomic.SwapInt64(&preCallbackFired, 0); n != 0 {
		bad("callback", "a callback option that a later option replaced is invoked", "%d invocations of the overridden callback", cs.NOps-1, n)
	}
	for _, in := range insts {
		if st, ok := in.c.Stats(); ok {
			res.max("max_growths", st.TotalGrowths)
			res.max("max_shrinks", st.TotalShrinks)
			res.count("growths", st.TotalGrowths)
			res.count("shrinks", st.TotalShrinks)
		}
	}
	return nontrivial, h.sum()
}

func firstWord(s string) string {
	for i, c := range s {
		if c == ' ' || c == ':' {
			return s[:i]
		}
	}
	return s
}

func diffRes(a, b cres, stopped, cmpCount bool) string {
	switch {
	case !veq(a.V, b.V):
		return fmt.Sprintf("value %s vs %s", fmtVal(a.V), fmtVal(b.V))
	case a.OK != b.OK:
		return fmt.Sprintf("flag %v vs %v", a.OK, b.OK)
	case !a.T.Equal(b.T) || a.T.IsZero() != b.T.IsZero():
		return fmt.Sprintf("time %v vs %v", a.T, b.T)
	case a.TTL != b.TTL:
		return fmt.Sprintf("ttl %d vs %d", a.TTL, b.TTL)
	case a.N != b.N || (cmpCount && a.Count != b.Count):
		return fmt.Sprintf("count %d/%d vs %d/%d", a.N, a.Count, b.N, b.Count)
	case a.D != b.D:
		return fmt.Sprintf("default %d vs %d", a.D, b.D)
	case a.B != b.B:
		return fmt.Sprintf("hascallback %v vs %v", a.B, b.B)
	case a.FnCalls != b.FnCalls || !veq(a.FnOld, b.FnOld) || a.FnLoaded != b.FnLoaded:
		return fmt.Sprintf("valueFn calls=%d old=%s loaded=%v vs calls=%d old=%s loaded=%v", a.FnCalls, fmtVal(a.FnOld), a.FnLoaded, b.FnCalls, fmtVal(b.FnOld), b.FnLoaded)
	case len(a.Visited) != len(b.Visited) || (!stopped && !sameKVs(a.Visited, b.Visited)):
		return fmt.Sprintf("visited %d vs %d pairs (or different pairs)", len(a.Visited), len(b.Visited))
	case (a.Items == nil) != (b.Items == nil) || !sameItems(a.Items, b.Items) || a.Unk != b.Unk:
		return "items differ"
	case !sameCbs(a.Cbs, b.Cbs):
		return fmt.Sprintf("callbacks %v vs %v", a.Cbs, b.Cbs)
	}
	return ""
}

func sameKVs(a, b []kvp) bool {
	// set comparison (traversal order is layout dependent; for an early stop
	// only the number of visits is comparable and this is not called)
	if len(a) != len(b) {
		return false
	}
	m := map[int]any{}
	for _, x := range a {
		m[x.K] = x.V
	}
	for _, x := range b {
		if v, ok := m[x.K]; !ok || !veq(v, x.V) {
			return false
		}
	}
	return true
}

func sameCbs(a, b []cbrec) bool {
	if len(a) != len(b) {
		return false
	}
	// the order in which one call reports several entries is unspecified (it follows
	// the table layout), so the records are compared as multisets; what "probe"
	// callbacks saw from inside (Count) is compared as a multiset of its own, not
	// per key: which entry is reported first may differ between twins
	key := func(c cbrec) string { return fmt.Sprintf("%d/%s/%d", c.K, fmtVal(c.V), c.ID) }
	x := make([]string, len(a))
	y := make([]string, len(b))
	nx := make([]int, len(a))
	ny := make([]int, len(b))
	for i := range a {
		x[i], y[i] = key(a[i]), key(b[i])
		nx[i], ny[i] = a[i].N, b[i].N
	}
	sort.Strings(x)
	sort.Strings(y)
	sort.Ints(nx)
	sort.Ints(ny)
	for i := range x {
		if x[i] != y[i] || nx[i] != ny[i] {
			return false
		}
	}
	return true
}

func sameItems(a, b map[int]any) bool {
	if len(a) != len(b) {
		return false
	}
	for k, v := range a {
		if w, ok := b[k]; !ok || !veq(w, v) {
			return false
		}
	}
	return true
}

func fmtItems(m map[int]any) string {
	if len(m) > 12 {
		return fmt.Sprintf("{%d entries}", len(m))
	}
	ks := make([]int, 0, len(m))
	for k := range m {
		ks = append(ks, k)
	}
	sort.Ints(ks)
	s := "{"
	for _, k := range ks {
		s += fmt.Sprintf("k%d:%s ", k, fmtVal(m[k]))
	}
	return s + "}"
}
