package main

import (
	"fmt"
)

func init() { engines["seqmap"] = runSeqMap }

// Sequential lock-step differential engine for Map / MapOf: one call sequence
// is applied to several instances (other size hints, other hashers, or the
// twin container) and to a builtin map; every result, Size and Range is
// compared after each call.

type mop struct {
	wop
	what   string // "" (wop) | Range | RangeStop | Size | Clear
	stopAt int
}

type seqMapCase struct {
	specs  []mapSpec
	ops    []mop
	desc   string
	exotic bool
}

func (c *seqMapCase) show(upto int) []string {
	lo := upto - 40
	if lo < 0 {
		lo = 0
	}
	var out []string
	for i := lo; i <= upto && i < len(c.ops); i++ {
		o := c.ops[i]
		if o.what != "" {
			out = append(out, fmt.Sprintf("%d %s", i, o.what))
		} else {
			out = append(out, fmt.Sprintf("%d %s(k%d,%s,fn%d)", i, opNames[o.kind], o.k, fmtVal(o.v), o.fn))
		}
	}
	return out
}

func runSeqMapCase(cs *seqMapCase, res *result, caseIdx int64, classes map[string]bool) (fp uint64, nontrivial bool) {
	insts := make([]mapAPI, len(cs.specs))
	for i, sp := range cs.specs {
		insts[i] = newMap(sp)
	}
	model := map[int]any{}
	h := newFP()
	bad := func(class, sig, msg string, step int) {
		if !classes[class] {
			res.count("other_class_"+class, 1)
			return
		}
		res.violate(violation{Class: class, Sig: sig, Msg: msg,
			Case: map[string]any{"case_index": caseIdx, "desc": cs.desc, "step": step, "ops_tail": cs.show(step)}})
	}
	for step, op := range cs.ops {
		if opHook != nil {
			opHook()
		}
		h.addStr(op.what)
		h.add(uint64(op.kind), uint64(op.k), uint64(op.fn))
		switch op.what {
		case "Size":
			for _, m := range insts {
				if n := m.Size(); n != len(model) {
					bad("count", "Size differs from the number of keys present", fmt.Sprintf("%s: Size()=%d, builtin map has %d", m.Name(), n, len(model)), step)
				}
				if st, ok := mapStats(m); ok && st.Size != len(model) {
					bad("count", "walked table size differs from the number of keys present", fmt.Sprintf("%s: table holds %d entries, builtin map has %d", m.Name(), st.Size, len(model)), step)
				}
			}
			continue
		case "Range", "RangeStop":
			for _, m := range insts {
				seen := map[int]bool{}
				n := 0
				m.Range(func(k int, v any) bool {
					n++
					want, ok := model[k]
					switch {
					case k < 0:
						bad("range", "Range visits a key that was never stored", m.Name()+": unknown key", step)
					case seen[k]:
						bad("range", "Range visits a key twice", fmt.Sprintf("%s: k%d visited twice", m.Name(), k), step)
					case !ok:
						bad("range", "Range visits a deleted/absent key", fmt.Sprintf("%s: k%d is absent in the builtin map", m.Name(), k), step)
					case want != v:
						bad("range", "Range visits a stale/foreign value", fmt.Sprintf("%s: k%d=%s, builtin map %s", m.Name(), k, fmtVal(v), fmtVal(want)), step)
					}
					seen[k] = true
					return op.what == "Range" || n < op.stopAt
				})
				want := len(model)
				if op.what == "RangeStop" && op.stopAt < want {
					want = op.stopAt
				}
				if n != want {
					bad("range", "Range visit count", fmt.Sprintf("%s: %s(stop=%d) made %d visits, builtin map has %d keys", m.Name(), op.what, op.stopAt, n, len(model)), step)
				}
			}
			continue
		}
		cur, present := model[op.k]
		s := slot{P: present, V: cur}
		var first *hev
		var ns slot
		for ii, m := range insts {
			w := op.wop
			ev := execMapOp(m, &w, ii)
			ok, n := stepSlot(s, ev)
			if !ok {
				st := "absent"
				if present {
					st = "present"
				}
				sig := fmt.Sprintf("%s on %s key returns wrong result", opNames[op.kind], st)
				if x := selfCheck(ev); x != "" {
					sig = x
				}
				bad("value", sig, fmt.Sprintf("%s: %s; builtin map has (%s,%v)", m.Name(), ev, fmtVal(cur), present), step)
			}
			if ii == 0 {
				first, ns = ev, n
			} else if ev.OutV != first.OutV || ev.OutOK != first.OutOK || ev.Calls != first.Calls || ev.Old != first.Old || ev.Loaded != first.Loaded {
				// zero values differ between flavours (nil vs val{}): compare through the model's notion
				if !(first.OutV == insts[0].Zero() && ev.OutV == m.Zero() && ev.OutOK == first.OutOK) {
					bad("twin", "instances disagree on "+opNames[op.kind], fmt.Sprintf("%s: %s  vs  %s: %s", insts[0].Name(), first, m.Name(), ev), step)
				}
			}
		}
		if op.kind == oClear {
			model = map[int]any{}
		} else if ns.P {
			model[op.k] = ns.V
		} else {
			delete(model, op.k)
		}
		if op.kind == oCompute && !present && op.fn == fnDel {
			nontrivial = true
		}
	}
	for _, m := range insts {
		if st, ok := mapStats(m); ok {
			res.count("growths", st.TotalGrowths)
			res.count("shrinks", st.TotalShrinks)
			res.max("max_chain", int64(st.MaxEntries))
			res.max("max_buckets", int64(st.RootBuckets))
			if st.TotalGrowths > 0 || st.TotalShrinks > 0 {
				nontrivial = true
			}
		}
	}
	return h.sum(), nontrivial
}

// opHook, when set, runs before every operation of the sequential engines
// (the termination engine re-arms its step budget there).
var opHook func()

var seqID int64

func sv(exotic bool, k int) any {
	seqID++
	return genValue(exotic, k, seqID)
}

func genSeqMapCase(r rng, mode string) *seqMapCase {
	cs := &seqMapCase{}
	nkeys := 1
	add := func(o mop) { cs.ops = append(cs.ops, o) }
	w := func(kind uint8, k int, fn uint8) mop {
		o := mop{wop: wop{kind: kind, k: k, fn: fn}}
		if kind != oLoad && kind != oLoadAndDelete && kind != oDelete && kind != oClear {
			o.v = sv(cs.exotic, k)
		} else if kind == oCompute {
			o.v = sv(cs.exotic, k)
		}
		return o
	}
	fam := r.weighted([]int{40, 30, 30})
	// instance set
	switch mode {
	case "twin":
		cs.exotic = true
		hint := pick(r, []int{noHint, -1, 0, 97, 1000})
		cs.specs = []mapSpec{{Flavor: "Map", Hint: hint}, {Flavor: "MapOf[string,any]", Hint: hint}}
	default: // layout
		fl := pick(r, mapFlavors)
		cs.exotic = fl == "Map" || fl == "MapOf[string,any]"
		hints := []int{noHint, -1, 0, 1, 72, 73, 96, 97, 120, 121, 144, 145, 288, 1000, 4607, 4608, 4609, 100000} // incl. values around power-of-two table lengths
		for i := 0; i < 3; i++ {
			cs.specs = append(cs.specs, mapSpec{Flavor: fl, Hint: pick(r, hints)})
		}
		if fl != "Map" {
			cs.specs = append(cs.specs, mapSpec{Flavor: fl, Hint: pick(r, hints), Hasher: pick(r, hasherModes)})
			if fam != 0 || r.chance(0.5) {
				cs.specs = append(cs.specs, mapSpec{Flavor: fl, Hint: 0, Hasher: "const"})
			}
		}
	}
	hasConst := false
	for _, sp := range cs.specs {
		if sp.Hasher == "const" || sp.Hasher == "sameh1" || sp.Hasher == "mod2" {
			hasConst = true
		}
	}
	switch fam {
	case 0: // bulk insert / delete waves across every threshold, Clear in between
		n := pick(r, []int{73, 97, 121, 400, 1000, 5000, 30000})
		if hasConst && n > 1000 {
			n = 1000 // a single chain: keep it quadratic-friendly
		}
		nkeys = n + 1
		waves := r.between(1, 3)
		for wv := 0; wv < waves; wv++ {
			for k := 0; k < n; k++ {
				add(w(pick(r, []uint8{oStore, oStore, oLoadOrStore, oLoadAndStore, oLoadOrCompute, oCompute}), k, fnSet))
				if k%61 == 0 {
					add(w(oLoad, r.intn(n), 0))
				}
			}
			add(mop{what: "Size"})
			add(mop{what: "Range"})
			keep := pick(r, []int{0, 0, 1, 3})
			// delete order: reverse, forward or shuffled (forward / shuffled order empties
			// buckets in the middle of a chain while later ones still hold entries)
			order := make([]int, 0, n)
			for k := n - 1; k >= keep; k-- {
				order = append(order, k)
			}
			switch r.intn(3) {
			case 1:
				for a, b := 0, len(order)-1; a < b; a, b = a+1, b-1 {
					order[a], order[b] = order[b], order[a]
				}
			case 2:
				r.Shuffle(len(order), func(a, b int) { order[a], order[b] = order[b], order[a] })
			}
			for j, k := range order {
				add(w(pick(r, []uint8{oDelete, oLoadAndDelete, oCompute}), k, fnDel))
				if j%41 == 0 {
					add(w(oLoad, order[r.intn(len(order))], 0))
					add(w(oLoad, order[len(order)-1], 0))
				}
			}
			add(mop{what: "Size"})
			add(mop{what: "Range"})
			if r.chance(0.4) {
				add(w(oClear, 0, 0))
				add(mop{what: "Size"})
			}
		}
		cs.desc = fmt.Sprintf("waves n=%d x%d", n, waves)
	case 1: // targeted probes on absent keys with the table just below a grow threshold
		base := pick(r, []int{60, 68, 71, 72, 73, 100, 140, 144, 145, 290})
		if hasConst && base > 150 {
			base = 145
		}
		probes := 400
		nkeys = base + probes + 1
		for k := 0; k < base; k++ {
			add(w(oStore, k, 0))
		}
		kinds := []struct {
			k  uint8
			fn uint8
		}{{oCompute, fnDel}, {oCompute, fnCond}, {oCompute, fnSet}, {oLoadAndDelete, 0}, {oDelete, 0}, {oLoadOrStore, 0}, {oLoadOrCompute, 0}, {oLoadAndStore, 0}, {oLoad, 0}}
		for p := 0; p < probes; p++ {
			k := base + p
			kd := pick(r, kinds)
			add(w(kd.k, k, kd.fn))
			// keep the table size where it is: remove what the probe inserted
			if r.chance(0.8) {
				add(w(oDelete, k, 0))
			}
			if p%50 == 49 {
				add(mop{what: "Size"})
			}
		}
		add(mop{what: "Range"})
		cs.desc = fmt.Sprintf("probes base=%d", base)
	default: // PRNG sequence over few keys
		nkeys = r.between(1, 12)
		n := r.between(40, 200)
		for i := 0; i < n; i++ {
			k := r.intn(nkeys)
			switch r.intn(12) {
			case 0:
				add(mop{what: "Size"})
			case 1:
				add(mop{what: "Range"})
			case 2:
				add(mop{what: "RangeStop", stopAt: r.between(1, 4)})
			case 3:
				if r.chance(0.3) {
					add(w(oClear, 0, 0))
				} else {
					add(w(oLoad, k, 0))
				}
			case 4, 5:
				add(w(oLoad, k, 0))
			default:
				add(w(pick(r, mapWriteKinds), k, uint8(r.intn(3))))
			}
		}
		cs.desc = fmt.Sprintf("random keys=%d ops=%d", nkeys, n)
	}
	for i := range cs.specs {
		cs.specs[i].NKeys = nkeys
	}
	names := ""
	for _, sp := range cs.specs {
		names += specName(sp) + " "
	}
	cs.desc = mode + " " + cs.desc + " [" + names + "]"
	return cs
}

func runSeqMap(a *args, res *result) {
	classes := map[string]bool{}
	mode := "layout"
	switch a.prop {
	case "C11":
		classes = map[string]bool{"value": true, "range": true, "count": true, "twin": true}
		res.Rule = "case = one call sequence (bulk insert/delete waves across every grow/shrink threshold with Clear; probes of every write method on absent keys with the table just below a grow threshold; PRNG sequences) applied to a builtin map and to 3-5 instances of one container flavour built with different size hints and (MapOf) different hashers incl. a constant one; every result, Size, walked size and Range compared; non-trivial = a grow or shrink happened or Compute(absent,delete) was probed; distinct = hash of the call sequence"
	case "C12":
		mode = "twin"
		classes = map[string]bool{"twin": true}
		res.Rule = "case = one call sequence with values nil/int/string/pointer/float/array/struct applied to Map and MapOf[string,any] (corresponding constructors); every result field compared; non-trivial = a resize happened or Compute(absent,delete) probed; distinct = hash of the call sequence"
	case "C05":
		classes = map[string]bool{"value": true}
		res.Rule = "sequential: every LoadOrCompute / Compute made while the table crosses its grow thresholds invokes its user function exactly as often as its result says (exactly once for Compute; once iff loaded=false for LoadOrCompute), also on the call that triggers the grow and retries"
	case "C07":
		classes = map[string]bool{"range": true}
		res.Rule = "quiescent exactness: after sequential call sequences (waves, probes, random) Range visits exactly the keys of the builtin map once each, early stop makes exactly j visits"
	case "C08":
		classes = map[string]bool{"count": true}
		res.Rule = "sequential: Size and walked table size equal the builtin map's len after every wave / probe batch (all insert paths: empty slot, new bucket, after grow; shrink; Clear)"
	}
	if a.extra == "huge" {
		hugeTables(a, res)
		return
	}
	for i := int64(0); i < a.n; i++ {
		if !a.mine(i) {
			continue
		}
		r := newRng(a.seed, uint64(i)*8+6)
		cs := genSeqMapCase(r, mode)
		logCase("seqmap %s case %d: %s", a.prop, i, cs.desc)
		fp, nt := runSeqMapCase(cs, res, i, classes)
		res.Evaluations++
		res.count("ops", int64(len(cs.ops)))
		if nt {
			res.nontrivial(fp)
		}
		if res.Evaluations <= 2 {
			res.sample(map[string]any{"case": i, "desc": cs.desc, "first_ops": cs.show(min(len(cs.ops)-1, 20))})
		}
	}
}

// hugeTables: one pass per flavour over a table that grows to more than 2^17
// root buckets and shrinks back to its minimum: several hundred thousand keys
// stored, every one of them loaded back, Size compared, everything deleted
// again. Code that only runs for very large tables is otherwise never reached.
func hugeTables(a *args, res *result) {
	res.Rule = "one sequential pass per container flavour over a table of more than 131072 root buckets (700 000 / 1 100 000 keys): store all, load every key back, Size, Range count, delete all, Size; distinct = flavour; non-trivial = the table really passed 2^17 buckets"
	flavors := []struct {
		fl string
		n  int
	}{{"Map", 700000}, {"MapOf[int,val]", 1100000}, {"MapOf[string,val]", 1100000}}
	for i, f := range flavors {
		if !a.mine(int64(i)) {
			continue
		}
		if (a.prop == "C03" && f.fl != "Map") || (a.prop == "C04" && f.fl == "Map") {
			continue
		}
		logCase("seqmap huge %s n=%d", f.fl, f.n)
		m := newMap(mapSpec{Flavor: f.fl, Hint: noHint, NKeys: f.n})
		bad := func(sig, msg string) {
			res.violate(violation{Class: "value", Sig: sig, Msg: f.fl + ": " + msg, Case: map[string]any{"case_index": i, "n": f.n}})
		}
		for k := 0; k < f.n; k++ {
			m.Store(k, mkVal(k, int64(k)+1))
		}
		miss := 0
		for k := 0; k < f.n; k++ {
			if v, ok := m.Load(k); !ok || v != any(mkVal(k, int64(k)+1)) {
				miss++
			}
		}
		if miss > 0 {
			bad("entries stored into a very large table are lost", fmt.Sprintf("%d of %d keys missing or wrong after the table grew", miss, f.n))
		}
		if n := m.Size(); n != f.n {
			bad("Size wrong for a very large table", fmt.Sprintf("Size()=%d, %d keys stored", n, f.n))
		}
		cnt := 0
		m.Range(func(int, any) bool { cnt++; return true })
		if cnt != f.n {
			bad("Range count wrong for a very large table", fmt.Sprintf("Range visits %d, %d keys stored", cnt, f.n))
		}
		st, _ := mapStats(m)
		res.max("max_buckets", int64(st.RootBuckets))
		keep := 1000
		for k := f.n - 1; k >= keep; k-- {
			m.Delete(k)
		}
		miss = 0
		for k := 0; k < keep; k++ {
			if _, ok := m.Load(k); !ok {
				miss++
			}
		}
		if miss > 0 || m.Size() != keep {
			bad("entries are lost when a very large table shrinks", fmt.Sprintf("%d of %d survivors missing, Size()=%d", miss, keep, m.Size()))
		}
		res.Evaluations++
		res.count("ops", int64(3*f.n))
		fp := newFP()
		fp.addStr("huge" + f.fl)
		if st.RootBuckets > 1<<17 {
			res.nontrivial(fp.sum())
		}
		fp2 := newFP()
		fp2.addStr("huge-shrunk" + f.fl)
		res.nontrivial(fp2.sum())
	}
}
