package main

import (
	"fmt"
	"runtime"
	"sync"
	"time"

	cache "github.com/fufuok/cache"
	"github.com/fufuok/cache/zzverif/vshim"
)

func init() { engines["term"] = runTerm }

// C13: every call terminates; callbacks may re-enter. "Eventually returns" is
// decided as bounded progress in shim steps: in polling mode every way the
// library can wait (spin lock, bucket mutex, resize condition) consumes counted
// steps, so a call that would wait forever exhausts its budget
// (VSHIM-STUCK, exit code 3); a goroutine blocked on a real lock with nobody
// left to release it trips the runtime's all-goroutines-asleep detector (no
// timers exist in the process). Both end the child process; the driver reports
// them with the case that was running.

const opBudget = 1 << 24

func armBudget() { vshim.SetStepBudget(opBudget) }

// sweep: after a phase every bucket must be lockable and every key writable
func sweepMap(m mapAPI, nkeys int) (visits int) {
	vshim.SetMode(vshim.MGlobal | vshim.MPoll | vshim.MCount)
	armBudget()
	m.Range(func(int, any) bool { visits++; return true })
	for k := 0; k < nkeys; k++ {
		armBudget()
		m.LoadOrStore(k, nextVal(k))
		m.Delete(k)
	}
	armBudget()
	m.Clear()
	vshim.SetStepBudget(0)
	vshim.SetMode(0)
	return
}

func sweepCache(c cacheAPI, nkeys int) {
	vshim.SetMode(vshim.MGlobal | vshim.MPoll | vshim.MCount)
	armBudget()
	c.Range(func(int, any) bool { return true })
	armBudget()
	c.DeleteExpired()
	for k := 0; k < nkeys; k++ {
		armBudget()
		c.GetOrSet(k, nextVal(k), time.Hour)
		c.Delete(k)
	}
	armBudget()
	c.Clear()
	vshim.SetStepBudget(0)
	vshim.SetMode(0)
}

func runTerm(a *args, res *result) {
	res.Rule = "three families: (a) return-path sweep - the sequential call sequences of the differential engines (every method on present/absent keys, full chains, inserts that grow, deletes that shrink, Clear) run in polling mode with a step budget per call, followed by a sweep (full Range, one write per key, Clear) and a lock-ledger check; (b) stress - concurrent rounds of the linearizability workloads with resize pressure and Clear callers, polling and pass-through locks, followed by the sweep; (c) re-entrancy - Range/Items visitors and evicted callbacks that call every method of the same container (nested Range, Clear, DeleteExpired, writes to the key being visited/evicted), alone and next to concurrent writers; non-trivial = case that exercised a wait (cond wait / lock spin), a resize or a re-entrant call; distinct = case hash"
	vshim.SetVirtual(true)
	vshim.SetLiveBudget(1 << 28)
	none := map[string]bool{}
	for i := int64(0); i < a.n; i++ {
		if !a.mine(i) {
			continue
		}
		r := newRng(a.seed, uint64(i)*8+1)
		fam := i % 5
		if a.prop == "C06" {
			fam = 3 // only the re-entrancy family: callbacks run outside internal locks and may call back in
		}
		fp := newFP()
		fp.add(uint64(fam), uint64(i))
		cw0 := vshim.ReadCounters()
		switch fam {
		case 0: // (a) maps, sequential, polling, per-call budget
			cs := genSeqMapCase(r, pick(r, []string{"layout", "twin"}))
			logCase("term round %d return-paths map: %s", i, cs.desc)
			vshim.SetMode(vshim.MGlobal | vshim.MPoll | vshim.MCount)
			opHook = armBudget
			runSeqMapCase(cs, res, i, none)
			opHook = nil
			vshim.SetStepBudget(0)
			vshim.SetMode(0)
			res.count("return_path_cases", 1)
			res.count("return_path_calls", int64(len(cs.ops)))
		case 1: // (a) caches
			cs := genSmallCase(r, "ttl", "single")
			if r.chance(0.15) {
				cs = genBulkCase(r, "single")
			}
			logCase("term round %d return-paths cache: %s", i, cs.Desc)
			sr := &seqRunner{res: res, prop: "C13", classes: none, caseIdx: i}
			vshim.SetMode(vshim.MGlobal | vshim.MPoll | vshim.MCount)
			opHook = armBudget
			sr.runSeqCase(cs)
			opHook = nil
			vshim.SetStepBudget(0)
			vshim.SetMode(0)
			res.count("return_path_cases", 1)
			res.count("return_path_calls", int64(len(cs.Ops)))
		case 2: // (b) stress
			if r.chance(0.6) {
				rd, m := genMapRound(r, "C13", mapFlavors[:4], hasherModes)
				// more Clear callers and resize pressure
				for w := 0; w < rd.workers && w < 3; w++ {
					for j := 0; j < 6; j++ {
						rd.progs[w] = append(rd.progs[w], wop{kind: oClear, rec: true})
						rd.progs[w] = append(rd.progs[w], genMapProg(r, 3, rd.hot, 0, 0.3)...)
					}
				}
				if rd.fillers == 0 && r.chance(0.7) {
					rd.fillers, rd.fillLo, rd.fillHi, rd.waves = r.between(1, 3), 100, 100+r.between(100, 600), r.between(1, 3)
				}
				logCase("term round %d stress map: %s", i, rd.desc())
				_, st := runMapRound(rd, m)
				res.count("stress_rounds", 1)
				res.count("resizes_in_stress", st.growths+st.shrinks)
				sweepMap(m, 1100)
				if n := cacheVerifLocked(m.Raw()); n > 0 {
					res.violate(violation{Class: "hang", Sig: "bucket lock or resize flag left set at a quiescent point", Msg: fmt.Sprintf("%s: %d locks held after the round", specName(rd.spec), n), Case: map[string]any{"case_index": i, "desc": rd.desc()}})
				}
			} else {
				rd := genCacheRound(r, "C13")
				logCase("term round %d stress cache: %s", i, rd.desc())
				c, out := runCacheRound(rd)
				res.count("stress_rounds", 1)
				res.count("resizes_in_stress", out.growths+out.shrinks)
				sweepCache(c, 700)
			}
		case 3: // (c) re-entrancy
			reentrancyCase(r, res, i)
		default: // (b') one resize per round: nobody rescues a waiter that missed its wake-up
			singleResizeRound(r, res, i)
		}
		b := vshim.LockBalance()
		// a janitor pass of an earlier round's cache may still be winding down (its last
		// flush ticks are consumed asynchronously) and hold a bucket lock of its own cache
		// for a moment: a leaked lock stays, a transient one is gone after a few yields
		for tries := 0; b != 0 && tries < 200000; tries++ {
			runtime.Gosched()
			b = vshim.LockBalance()
			if b != 0 && tries == 199999 {
				res.count("ledger_settle_exhausted", 1)
			} else if b == 0 {
				res.count("ledger_transient_imbalances", 1)
			}
		}
		if b != 0 {
			res.violate(violation{Class: "hang", Sig: "mutex acquisitions and releases do not balance at a quiescent point", Msg: fmt.Sprintf("lock ledger = %d after round %d", b, i), Case: map[string]any{"case_index": i}})
		}
		cw1 := vshim.ReadCounters()
		res.count("cond_waits", int64(cw1.CondWaits-cw0.CondWaits))
		res.count("lock_spins", int64(cw1.LockSpins-cw0.LockSpins))
		res.Evaluations++
		res.nontrivial(fp.sum())
	}
	res.sample(map[string]any{"families": []string{"return-path sweep (maps)", "return-path sweep (caches)", "stress + sweep", "re-entrant visitors/callbacks"}, "per_call_step_budget": opBudget})
}

// singleResizeRound: writers hammer a fixed key set while the main goroutine
// performs exactly ONE table replacement (a Clear, or one batch of inserts that
// grows the table once). Writers that observe the resize in progress wait for
// it; since no further resize follows, a wake-up lost at the end of that single
// resize leaves them waiting forever (step budget / deadlock detector).
func singleResizeRound(r rng, res *result, idx int64) {
	polling := r.chance(0.5)
	level := pick(r, []int{1, 2, 2, 3})
	focus := pick(r, []vshim.Kind{vshim.KCondWait, vshim.KCondWait, vshim.KBroadcast, vshim.KAfterStore, vshim.KLock, vshim.NKinds})
	procs := pick(r, []int{2, 4, 16, 16})
	writers := r.between(3, 14)
	nk := pick(r, []int{8, 40, 70})
	var store func(k int, v any)
	var clear func()
	var sweep func()
	name := ""
	if r.chance(0.65) {
		sp := mapSpec{Flavor: pick(r, mapFlavors[:4]), Hint: noHint, NKeys: 2048}
		m := newMap(sp)
		store, clear, name = m.Store, m.Clear, specName(sp)
		sweep = func() { sweepMap(m, 300) }
	} else {
		vshim.SetVNow(epoch)
		sp := cacheSpec{Flavor: pick(r, cacheFlavors), Ctor: "New", OptMask: 1 | 2, DefExp: time.Hour, Interval: 0, NKeys: 2048}
		c := newCache(sp)
		store, clear, name = func(k int, v any) { c.Set(k, v, time.Hour) }, c.Clear, sp.Flavor
		sweep = func() { sweepCache(c, 300) }
	}
	useClear := r.chance(0.5)
	logCase("term round %d single-resize: %s writers=%d keys=%d clear=%v level=%d focus=%d procs=%d polling=%v", idx, name, writers, nk, useClear, level, focus, procs, polling)
	for k := 0; k < nk; k++ {
		store(k, nextVal(k))
	}
	mode := vshim.MCount | vshim.MBudget | vshim.MPerturb
	if polling {
		mode |= vshim.MPoll
	}
	vshim.SetPerturb(level, focus)
	old := runtime.GOMAXPROCS(procs)
	vshim.ResetLive()
	vshim.SetMode(mode)
	var wg sync.WaitGroup
	start := make(chan struct{})
	for w := 0; w < writers; w++ {
		wg.Add(1)
		go func(w int) {
			defer wg.Done()
			<-start
			for j := 0; j < 120; j++ {
				k := (w*7 + j) % nk
				store(k, nextVal(k))
				vshim.Progress()
			}
		}(w)
	}
	close(start)
	for j := 0; j < 20; j++ {
		runtime.Gosched()
	}
	if useClear {
		clear()
	} else {
		// one batch that crosses the grow threshold exactly once
		for k := 1000; k < 1000+80-nk+10; k++ {
			store(k, nextVal(k))
		}
	}
	vshim.Progress()
	wg.Wait()
	vshim.SetMode(0)
	runtime.GOMAXPROCS(old)
	res.count("single_resize_rounds", 1)
	sweep()
}

// ---- re-entrancy ----

func reentrancyCase(r rng, res *result, idx int64) {
	concurrent := r.chance(0.4)
	polling := r.chance(0.6)
	mode := vshim.MGlobal | vshim.MCount
	if polling {
		mode |= vshim.MPoll
	}
	if concurrent {
		mode = vshim.MCount | vshim.MBudget | vshim.MPerturb
		if polling {
			mode |= vshim.MPoll
		}
		vshim.SetPerturb(r.between(0, 2), vshim.NKinds)
	}
	nkeys := pick(r, []int{6, 40, 90, 300, 900})
	if r.chance(0.5) {
		// ---- maps: Range visitor re-enters
		sp := mapSpec{Flavor: pick(r, mapFlavors[:4]), Hint: noHint, NKeys: 2048}
		if sp.Flavor != "Map" && r.chance(0.5) {
			sp.Hasher = pick(r, hasherModes)
		}
		m := newMap(sp)
		for k := 0; k < nkeys; k++ {
			m.Store(k, nextVal(k))
		}
		logCase("term round %d re-entrant map visitor: %s keys=%d concurrent=%v polling=%v", idx, specName(sp), nkeys, concurrent, polling)
		vshim.ResetLive()
		vshim.SetMode(mode)
		var wg sync.WaitGroup
		stop := make(chan struct{})
		if concurrent {
			for w := 0; w < 3; w++ {
				wg.Add(1)
				go func(w int) {
					defer wg.Done()
					rr := newRng(int64(idx), uint64(w)+100)
					for j := 0; j < 300; j++ {
						k := rr.intn(nkeys + 50)
						switch rr.intn(4) {
						case 0:
							m.Store(k, nextVal(k))
						case 1:
							m.Delete(k)
						case 2:
							m.Load(k)
						default:
							if rr.intn(20) == 0 {
								m.Clear()
							}
						}
						vshim.Progress()
					}
				}(w)
			}
		}
		depth := 0
		calls := 0
		var visitor func(k int, v any) bool
		visitor = func(k int, v any) bool {
			if !concurrent {
				armBudget()
			}
			calls++
			if depth >= 2 {
				return true
			}
			depth++
			defer func() { depth-- }()
			nk := nkeys + r.intn(400)
			switch r.intn(14) {
			case 0:
				m.Load(k)
			case 1:
				m.Store(k, nextVal(k))
			case 2:
				m.Store(nk, nextVal(nk))
			case 3:
				m.LoadOrStore(nk, nextVal(nk))
			case 4:
				m.LoadAndStore(k, nextVal(k))
			case 5:
				m.LoadOrCompute(nk, func() any { return nextVal(nk) })
			case 6:
				m.Compute(k, func(o any, l bool) (any, bool) { return nextVal(k), r.intn(2) == 0 })
			case 7:
				m.LoadAndDelete(k)
			case 8:
				m.Delete(r.intn(nkeys))
			case 9:
				if calls < 50 {
					m.Range(visitor)
				}
			case 10:
				if r.intn(6) == 0 {
					m.Clear()
				}
			case 11:
				m.Size()
			default:
				// a burst of inserts: grows the table while it is being traversed
				for j := 0; j < 30; j++ {
					m.Store(nk+j, nextVal(nk+j))
				}
			}
			vshim.Progress()
			return calls < 3000
		}
		armBudget()
		m.Range(visitor)
		close(stop)
		wg.Wait()
		vshim.SetStepBudget(0)
		vshim.SetMode(0)
		res.count("reentrant_visitor_calls", int64(calls))
		sweepMap(m, 900)
		return
	}
	// ---- caches: visitor and evicted callback re-enter
	vshim.SetVNow(epoch)
	var c cacheAPI
	depth := 0
	cbCalls := 0
	reenter := func(k int) {
		if depth >= 2 {
			return
		}
		depth++
		defer func() { depth-- }()
		nk := nkeys + r.intn(200)
		switch r.intn(16) {
		case 0:
			c.Get(k)
		case 1:
			c.Set(k, nextVal(k), time.Duration(r.between(1, 50)))
		case 2:
			c.Set(nk, nextVal(nk), time.Hour)
		case 3:
			c.Delete(k)
		case 4:
			c.Delete(r.intn(nkeys))
		case 5:
			c.GetAndDelete(r.intn(nkeys))
		case 6:
			c.DeleteExpired()
		case 7:
			c.Count()
		case 8:
			c.Range(func(int, any) bool { return true })
		case 9:
			c.Items()
		case 10:
			if r.intn(5) == 0 && nkeys < 300 { // large cases keep their entries for one big sweep
				c.Clear()
			}
		case 11:
			c.GetOrCompute(nk, func() any { return nextVal(nk) }, time.Hour)
		case 12:
			c.Compute(k, func(o any, l bool) (any, bool) { return nextVal(k), r.intn(2) == 0 }, time.Hour)
		case 13:
			c.GetAndRefresh(k, time.Hour)
		case 14:
			c.GetWithTTL(k)
		default:
			c.SetDefaultExpiration(time.Minute)
		}
		vshim.Progress()
	}
	sp := cacheSpec{Flavor: pick(r, cacheFlavors), Ctor: "New", OptMask: 1 | 2 | 4, DefExp: time.Hour, Interval: 0, NKeys: 2048}
	sp.Callback = func(k int, v any) {
		cbCalls++
		if !concurrent {
			armBudget()
		}
		if k >= 0 {
			reenter(k)
		}
	}
	c = newCache(sp)
	logCase("term round %d re-entrant cache visitor/callback: %s keys=%d concurrent=%v polling=%v", idx, sp.Flavor, nkeys, concurrent, polling)
	for k := 0; k < nkeys; k++ {
		ttls := []time.Duration{5, 20, time.Hour, cache.NoExpiration}
		if nkeys >= 300 {
			ttls = []time.Duration{5, 20, 30, 40, 50, 60, 70, time.Hour} // large sweeps: most entries expire together
		}
		c.Set(k, nextVal(k), pick(r, ttls))
	}
	vshim.SetVNow(epoch + 10)
	vshim.ResetLive()
	vshim.SetMode(mode)
	var wg sync.WaitGroup
	if concurrent {
		for w := 0; w < 3; w++ {
			wg.Add(1)
			go func(w int) {
				defer wg.Done()
				rr := newRng(int64(idx), uint64(w)+200)
				for j := 0; j < 300; j++ {
					k := rr.intn(nkeys + 50)
					switch rr.intn(5) {
					case 0:
						c.Set(k, nextVal(k), time.Duration(rr.between(1, 50)))
					case 1:
						c.Get(k)
					case 2:
						c.GetOrSet(k, nextVal(k), time.Hour)
					default:
						c.GetWithTTL(k)
					}
					vshim.Progress()
				}
			}(w)
		}
	}
	// the main goroutine is the only one that removes, so callbacks (and the
	// re-entrant calls they make) run on it
	visits := 0
	armBudget()
	c.Range(func(k int, v any) bool {
		visits++
		if !concurrent {
			armBudget()
		}
		reenter(k)
		return visits < 2000
	})
	for k := 0; k < nkeys; k += 2 {
		if !concurrent {
			armBudget()
		}
		if k%4 == 0 {
			c.Delete(k)
		} else {
			c.GetAndDelete(k)
		}
	}
	vshim.SetVNow(epoch + 100)
	armBudget()
	c.DeleteExpired()
	armBudget()
	c.Items()
	wg.Wait()
	vshim.SetStepBudget(0)
	vshim.SetMode(0)
	res.count("reentrant_visitor_calls", int64(visits))
	res.count("reentrant_callback_calls", int64(cbCalls))
	sweepCache(c, 600)
	runtime.KeepAlive(c)
}
