package main

import (
	"fmt"
	"runtime"
	"sync"
	"sync/atomic"
	"time"

	"github.com/fufuok/cache/zzverif/vshim"
)

func init() {
	engines["linzmap"] = runLinzMap
}

// A worker program step.
type wop struct {
	kind uint8
	k    int
	v    any
	fn   uint8
	rec  bool // recorded in the history
	d    time.Duration
}

type mapRound struct {
	spec    mapSpec
	family  string
	workers int
	progs   [][]wop
	hot     []int
	fillLo  int
	fillHi  int
	fillers int
	waves   int
	level   int
	focus   vshim.Kind
	procs   int
	polling bool
	whole   bool // small unpartitioned history
	prefill []int
}

func (rd *mapRound) desc() string {
	return fmt.Sprintf("%s %s workers=%d hot=%v fill=[%d,%d)x%d fillers=%d level=%d focus=%d procs=%d polling=%v whole=%v",
		rd.family, specName(rd.spec), rd.workers, rd.hot, rd.fillLo, rd.fillHi, rd.waves, rd.fillers, rd.level, rd.focus, rd.procs, rd.polling, rd.whole)
}

func specName(sp mapSpec) string {
	s := sp.Flavor
	if sp.Hasher != "" {
		s += "/" + sp.Hasher
	}
	if sp.Hint != noHint {
		s += fmt.Sprintf("/hint%d", sp.Hint)
	}
	return s
}

var mapWriteKinds = []uint8{oStore, oLoadOrStore, oLoadAndStore, oLoadOrCompute, oCompute, oCompute, oLoadAndDelete, oDelete}

var idCounter int64

func nextVal(k int) val { return mkVal(k, atomic.AddInt64(&idCounter, 1)) }

func genMapProg(r rng, n int, keys []int, pClear, pLoad float64) []wop {
	p := make([]wop, 0, n)
	for i := 0; i < n; i++ {
		k := pick(r, keys)
		switch {
		case r.chance(pClear):
			p = append(p, wop{kind: oClear, rec: true})
		case r.chance(pLoad):
			p = append(p, wop{kind: oLoad, k: k, rec: true})
		default:
			w := wop{kind: pick(r, mapWriteKinds), k: k, rec: true}
			if w.kind == oCompute {
				w.fn = uint8(r.intn(3))
			}
			w.v = nextVal(k)
			p = append(p, w)
		}
	}
	return p
}

// nilValues replaces a few written values by an untyped nil (any-valued
// containers only): a stored nil is a present value like any other.
func nilValues(r rng, progs [][]wop) {
	for _, p := range progs {
		for i := range p {
			if p[i].v != nil && p[i].kind != oCompute && r.chance(0.04) {
				p[i].v = nil
			}
		}
	}
}

func execMapOp(m mapAPI, w *wop, client int) *hev {
	h := &hev{Client: client, Kind: w.kind, K: w.k, V: w.v, Fn: w.fn, Zero: m.Zero()}
	h.Call = tick()
	switch w.kind {
	case oLoad:
		h.OutV, h.OutOK = m.Load(w.k)
	case oStore:
		m.Store(w.k, w.v)
	case oLoadOrStore:
		h.OutV, h.OutOK = m.LoadOrStore(w.k, w.v)
	case oLoadAndStore:
		h.OutV, h.OutOK = m.LoadAndStore(w.k, w.v)
	case oLoadOrCompute:
		h.OutV, h.OutOK = m.LoadOrCompute(w.k, func() any { h.Calls++; return w.v })
	case oCompute:
		h.OutV, h.OutOK = m.Compute(w.k, func(old any, loaded bool) (any, bool) {
			h.Calls++
			h.Old, h.Loaded = old, loaded
			switch w.fn {
			case fnDel:
				return w.v, true // a non-zero value together with delete=true: must be ignored
			case fnCond:
				return w.v, loaded
			}
			return w.v, false
		})
	case oLoadAndDelete:
		h.OutV, h.OutOK = m.LoadAndDelete(w.k)
	case oDelete:
		m.Delete(w.k)
	case oClear:
		m.Clear()
	case oWaitSize:
		// not an API call under test: hold back until the table is about to cross a grow threshold
		for i := 0; i < 1500 && m.Size() < w.k; i++ {
			runtime.Gosched()
		}
	}
	h.Ret = tick()
	vshim.Progress()
	return h
}

// provenance: a value handed out under key k must have been written under k
func provenance(h *hev) string {
	chk := func(v any, what string) string {
		if x, ok := v.(val); ok && !x.ok() {
			return fmt.Sprintf("%s of %s on k%d is not a value anybody stored (mixed from two writes): %+v", what, opNames[h.Kind], h.K, x)
		}
		if _, ok := v.(val2); ok {
			return fmt.Sprintf("%s of %s on k%d has a dynamic type/data combination nobody stored", what, opNames[h.Kind], h.K)
		}
		if x, ok := v.(val); ok && x != (val{}) && int(x.K) != h.K {
			return fmt.Sprintf("%s of %s on k%d is a value written under k%d", what, opNames[h.Kind], h.K, x.K)
		}
		return ""
	}
	if h.Kind == oStore || h.Kind == oDelete || h.Kind == oClear || h.Kind == cSet || h.Kind == cDelete || isGlobal(h.Kind) {
		return ""
	}
	if s := chk(h.OutV, "result"); s != "" {
		return s
	}
	return chk(h.Old, "old value")
}

type roundStats struct {
	ownLost          []string // read-your-own-write failures of the filler goroutines (rounds without Clear)
	ownChecks        int64
	growths, shrinks int64
	condWaits        uint64
	casFails         uint64
}

// runMapRound executes the round and returns the merged history.
func runMapRound(rd *mapRound, m mapAPI) ([]*hev, roundStats) {
	var st roundStats
	for _, k := range rd.prefill {
		m.Store(k, nextVal(k))
	}
	s0, _ := mapStats(m)
	cw0, cf0 := vshim.CondWaits(), vshim.CASFails()
	mode := vshim.MCount | vshim.MBudget
	if rd.level > 0 {
		mode |= vshim.MPerturb
	}
	if rd.polling {
		mode |= vshim.MPoll
	}
	vshim.SetPerturb(rd.level, rd.focus)
	old := runtime.GOMAXPROCS(rd.procs)
	vshim.ResetLive()
	vshim.SetMode(mode)
	hists := make([][]*hev, rd.workers)
	var wg sync.WaitGroup
	var stop int32
	start := make(chan struct{})
	for w := 0; w < rd.workers; w++ {
		wg.Add(1)
		go func(w int) {
			defer wg.Done()
			<-start
			prog := rd.progs[w]
			hs := make([]*hev, 0, len(prog))
			for i := range prog {
				h := execMapOp(m, &prog[i], w)
				if prog[i].rec {
					hs = append(hs, h)
				}
			}
			hists[w] = hs
		}(w)
	}
	// filler keys have ONE owner each: when no Clear can interfere, a Load right after
	// the owner's own Store must return that value and a Load after its Delete must miss
	hasClear := false
	for _, p := range rd.progs {
		for _, w := range p {
			if w.kind == oClear {
				hasClear = true
			}
		}
	}
	var ownMu sync.Mutex
	var fwg sync.WaitGroup
	for f := 0; f < rd.fillers; f++ {
		fwg.Add(1)
		go func(f int) {
			defer fwg.Done()
			<-start
			var lost []string
			checks := int64(0)
			for wv := 0; wv < rd.waves && atomic.LoadInt32(&stop) == 0; wv++ {
				for k := rd.fillLo + f; k < rd.fillHi; k += rd.fillers {
					v := nextVal(k)
					m.Store(k, v)
					if !hasClear {
						checks++
						if got, ok := m.Load(k); (!ok || got != any(v)) && len(lost) < 5 {
							lost = append(lost, fmt.Sprintf("Store(k%d,%s) returned, the owner's next Load(k%d) = (%s,%v)", k, fmtVal(v), k, fmtVal(got), ok))
						}
					}
					vshim.Progress()
				}
				for k := rd.fillLo + f; k < rd.fillHi; k += rd.fillers {
					m.Delete(k)
					if !hasClear {
						checks++
						if got, ok := m.Load(k); ok && len(lost) < 5 {
							lost = append(lost, fmt.Sprintf("Delete(k%d) returned, the owner's next Load(k%d) = (%s,true)", k, k, fmtVal(got)))
						}
					}
					vshim.Progress()
				}
			}
			ownMu.Lock()
			st.ownLost = append(st.ownLost, lost...)
			st.ownChecks += checks
			ownMu.Unlock()
		}(f)
	}
	close(start)
	wg.Wait()
	atomic.StoreInt32(&stop, 1)
	fwg.Wait()
	vshim.SetMode(0)
	runtime.GOMAXPROCS(old)
	s1, _ := mapStats(m)
	st.growths, st.shrinks = s1.TotalGrowths-s0.TotalGrowths, s1.TotalShrinks-s0.TotalShrinks
	st.condWaits, st.casFails = vshim.CondWaits()-cw0, vshim.CASFails()-cf0
	var all []*hev
	for _, hs := range hists {
		all = append(all, hs...)
	}
	// final quiescent reads pin the end state
	for _, k := range rd.hot {
		all = append(all, execMapOp(m, &wop{kind: oLoad, k: k}, rd.workers))
	}
	return all, st
}

func pickMates(r rng, m mapAPI, pool, want int) []int {
	// choose `want` keys from [0,pool) that share a root bucket in the current
	// table, using the inspector when it is available
	by := map[int][]int{}
	best := -1
	for k := 0; k < pool; k++ {
		b := m.BucketOf(k)
		if b < 0 {
			break
		}
		by[b] = append(by[b], k)
		if best < 0 || len(by[b]) > len(by[best]) {
			best = b
		}
		if len(by[b]) >= want {
			return by[b][:want]
		}
	}
	if best >= 0 && len(by[best]) >= 2 {
		return by[best]
	}
	out := make([]int, want)
	for i := range out {
		out[i] = i
	}
	return out
}

func genMapRound(r rng, prop string, flavors []string, hashers []string) (*mapRound, mapAPI) {
	rd := &mapRound{}
	rd.spec = mapSpec{Flavor: pick(r, flavors), Hint: pick(r, []int{noHint, noHint, 0, 200}), NKeys: 2048}
	if rd.spec.Flavor != "Map" && len(hashers) > 0 && r.chance(0.6) {
		rd.spec.Hasher = pick(r, hashers)
	}
	m := newMap(rd.spec)
	rd.level = pick(r, []int{0, 1, 1, 2, 2, 3})
	rd.focus = vshim.NKinds
	if r.chance(0.5) {
		// mostly the kinds that open a window between two adjacent operations of one call
		rd.focus = pick(r, []vshim.Kind{vshim.KLoad, vshim.KLoad, vshim.KLoad, vshim.KStore, vshim.KAfterStore, vshim.KAfterCAS, vshim.KAfterUnlock,
			vshim.KLock, vshim.KCondWait, vshim.KBroadcast, vshim.KAdd, vshim.KCAS, vshim.Kind(r.intn(int(vshim.NKinds)))})
	}
	rd.procs = pick(r, []int{1, 2, 4, 16, 16})
	rd.polling = r.chance(0.5)
	fam := r.weighted([]int{26, 12, 12, 18, 14, 10, 8})
	pClear := 0.0
	if r.chance(0.4) {
		pClear = 0.04
	}
	switch fam {
	case 0: // small unpartitioned history
		rd.family = "small-whole"
		rd.whole = true
		rd.workers = r.between(2, 6)
		nk := r.between(1, 3)
		rd.hot = pickMates(r, m, 64, nk)
		// the whole model indexes keys 0..3: remap by using positions
		for w := 0; w < rd.workers; w++ {
			rd.progs = append(rd.progs, genMapProg(r, r.between(3, 10), rd.hot, pClear*2, 0.3))
		}
		if r.chance(0.5) {
			// a grow racing the small history
			rd.fillers, rd.fillLo, rd.fillHi, rd.waves = 1, 100, 100+r.between(80, 300), 1
		}
	case 1: // hot bucket mates
		rd.family = "hot-mates"
		rd.workers = r.between(2, 16)
		rd.hot = pickMates(r, m, 96, r.between(2, 4))
		for w := 0; w < rd.workers; w++ {
			rd.progs = append(rd.progs, genMapProg(r, r.between(15, 50), rd.hot, pClear, 0.35))
		}
	case 2: // slot reuse: more mates than slots, heavy delete/insert churn
		rd.family = "slot-churn"
		rd.workers = r.between(2, 12)
		rd.hot = pickMates(r, m, 160, r.between(5, 8))
		for w := 0; w < rd.workers; w++ {
			rd.progs = append(rd.progs, genMapProg(r, r.between(20, 60), rd.hot, pClear, 0.3))
		}
	case 3: // grow/shrink waves under hot keys
		rd.family = "resize-waves"
		rd.workers = r.between(2, 12)
		rd.hot = pickMates(r, m, 64, r.between(2, 4))
		rd.fillers = r.between(1, 3)
		rd.fillLo, rd.fillHi = 100, 100+r.between(90, 700)
		rd.waves = r.between(1, 3)
		for w := 0; w < rd.workers; w++ {
			rd.progs = append(rd.progs, genMapProg(r, r.between(20, 60), rd.hot, pClear, 0.4))
		}
	case 6: // read storm: in-place updates of one or two present keys under a storm of lock-free readers
		rd.family = "read-storm"
		rd.workers = r.between(6, 16)
		rd.hot = pickMates(r, m, 64, r.between(1, 2))
		rd.level, rd.focus, rd.procs = 0, vshim.NKinds, 16
		for w := 0; w < rd.workers; w++ {
			var p []wop
			n := r.between(30, 60)
			for j := 0; j < n; j++ {
				k := pick(r, rd.hot)
				if w%3 == 0 {
					p = append(p, wop{kind: pick(r, []uint8{oStore, oLoadAndStore, oCompute}), k: k, v: nextVal(k), fn: fnSet, rec: true})
				} else {
					p = append(p, wop{kind: oLoad, k: k, rec: true})
				}
			}
			rd.progs = append(rd.progs, p)
		}
	case 5: // probers: Store(k); Clear(); Load(k) in program order while others resize the table
		rd.family = "clear-probe"
		rd.workers = r.between(2, 5)
		rd.hot = pickMates(r, m, 64, rd.workers)
		rd.fillers = r.between(2, 3)
		rd.fillLo, rd.fillHi = 100, 100+r.between(90, 500)
		rd.waves = r.between(2, 4)
		for k := 1000; k < 1000+r.between(50, 75); k++ {
			rd.prefill = append(rd.prefill, k)
		}
		// pause right after a CAS was won (the resizing flag, a bucket spin lock): the
		// resize in flight stays in flight long enough for the probers' Clear to meet it
		if r.chance(0.7) {
			rd.focus = vshim.KAfterCAS
			if rd.level < 2 {
				rd.level = 2
			}
		}
		for w := 0; w < rd.workers; w++ {
			k := rd.hot[w%len(rd.hot)]
			var p []wop
			for j := 0; j < r.between(3, 8); j++ {
				// grow thresholds: 72*2^i entries (Map), 120*2^i (MapOf)
				th := pick(r, []int{72, 144, 288, 120, 240, 480}) + r.between(-3, 2)
				p = append(p, wop{kind: oWaitSize, k: th},
					wop{kind: oStore, k: k, v: nextVal(k), rec: true}, wop{kind: oClear, rec: true}, wop{kind: oLoad, k: k, rec: true})
			}
			rd.progs = append(rd.progs, p)
		}
	default: // Clear racing inserts that trigger a grow
		rd.family = "clear-vs-grow"
		rd.workers = r.between(3, 10)
		rd.hot = pickMates(r, m, 64, r.between(2, 4))
		rd.fillers = r.between(1, 3)
		rd.fillLo, rd.fillHi = 100, 100+r.between(70, 400)
		rd.waves = r.between(1, 2)
		// table just below a grow threshold so that the first inserts grow it
		for k := 1000; k < 1000+r.between(60, 75); k++ {
			rd.prefill = append(rd.prefill, k)
		}
		for w := 0; w < rd.workers; w++ {
			rd.progs = append(rd.progs, genMapProg(r, r.between(10, 40), rd.hot, 0.08, 0.4))
		}
	}
	if m.Zero() == nil && rd.family != "read-storm" && rd.family != "clear-probe" {
		nilValues(r, rd.progs)
	}
	return rd, m
}

func runLinzMap(a *args, res *result) {
	flavors := []string{"Map"}
	var hashers []string
	if a.prop == "C11" {
		flavors = mapFlavors // every flavour: nothing may be lost, duplicated or resurrected across resizes
		hashers = hasherModes
	}
	if a.prop == "C04" || a.prop == "C10" {
		flavors = []string{"MapOf[int,val]", "MapOf[string,val]", "MapOf[skey,val]"}
		hashers = hasherModes
	}
	if a.prop == "C12" {
		// the twins must both satisfy the same concurrent specification
		flavors = []string{"Map", "MapOf[string,any]"}
	}
	res.Rule = "round = one container, 2-16 goroutines running PRNG programs over 1-8 hot keys (bucket mates chosen with the inspector) with filler goroutines driving grow/shrink waves and Clear callers, random perturbation level/focus/GOMAXPROCS/polling; history recorded at the client boundary and checked with porcupine per key (+Clear in every partition) or unpartitioned (small family); non-trivial = history contains at least one pair of overlapping calls from different goroutines on one key; distinct = hash of the ticket-ordered call/return event sequence"
	vshim.SetLiveBudget(1 << 28)
	for i := int64(0); i < a.n; i++ {
		if !a.mine(i) {
			continue
		}
		r := newRng(a.seed, uint64(i)*8+3)
		if i%64 == 21 {
			kind := "MapOf[string,val]"
			if a.prop == "C03" || (a.prop != "C04" && a.prop != "C10" && r.chance(0.5)) {
				kind = "Map"
			}
			longKeyStorm(r, res, i, kind)
			continue
		}
		if i%12 == 5 {
			sp := mapSpec{Flavor: pick(r, flavors), Hint: noHint, NKeys: 20480}
			if sp.Flavor != "Map" && len(hashers) > 0 && r.chance(0.3) {
				sp.Hasher = pick(r, []string{"mix", "sameh2"})
			}
			for rep := 0; rep < 12; rep++ {
				m := newMap(sp)
				ownStorm(r, res, i, specName(sp), m.Load, m.Store, m.Delete)
			}
			continue
		}
		if i%16 == 7 {
			sp := mapSpec{Flavor: pick(r, flavors), Hint: pick(r, []int{noHint, 0, 200}), NKeys: 4096}
			if sp.Flavor != "Map" && len(hashers) > 0 && r.chance(0.5) {
				sp.Hasher = pick(r, hashers)
			}
			m := newMap(sp)
			stableStorm(r, res, i, specName(sp), m.Load, m.Store, m.Delete)
			continue
		}
		rd, m := genMapRound(r, a.prop, flavors, hashers)
		logCase("linzmap %s round %d: %s", a.prop, i, rd.desc())
		hs, st := runMapRound(rd, m)
		res.Evaluations++
		res.count("ops_recorded", int64(len(hs)))
		res.count("family:"+rd.family, 1)
		res.count("growths_during_rounds", st.growths)
		res.count("shrinks_during_rounds", st.shrinks)
		res.count("cond_waits", int64(st.condWaits))
		res.count("cas_failures", int64(st.casFails))
		if st.growths+st.shrinks > 0 {
			res.count("rounds_with_resize", 1)
		}
		res.count(fmt.Sprintf("procs:%d", rd.procs), 1)
		ov, fp := historyShape(hs)
		res.count("overlapping_same_key_pairs", int64(ov))
		if ov > 0 {
			res.nontrivial(fp)
		}
		if res.Evaluations <= 2 {
			res.sample(map[string]any{"round": i, "desc": rd.desc(), "history_head": describe(hs)[:min(len(hs), 30)]})
		}
		caseInfo := func(extra map[string]any) map[string]any {
			c := map[string]any{"case_index": i, "desc": rd.desc(), "growths": st.growths, "shrinks": st.shrinks}
			for k, v := range extra {
				c[k] = v
			}
			return c
		}
		for _, h := range hs {
			if s := provenance(h); s != "" {
				res.violate(violation{Class: "provenance", Sig: "value stored under another key is returned", Msg: s, Case: caseInfo(map[string]any{"call": h.String()})})
			}
		}
		res.count("own_write_readbacks", st.ownChecks)
		for _, s := range st.ownLost {
			res.violate(violation{Class: "own-write", Sig: "a completed write is not visible to its own goroutine (single-owner key, no Clear in the round)", Msg: specName(rd.spec) + ": " + s, Case: caseInfo(nil)})
		}
		selfBad := false
		for _, h := range hs {
			if s := selfCheck(h); s != "" {
				selfBad = true
				res.violate(violation{Class: "result", Sig: s, Msg: specName(rd.spec) + ": " + h.String(), Case: caseInfo(map[string]any{"call": h.String()})})
			}
		}
		if selfBad {
			continue // the history is illegal for a local reason already reported
		}
		var v linVerdict
		if rd.whole {
			// remap keys to 0..3 for the whole model
			pos := map[int]int{}
			for j, k := range rd.hot {
				pos[k] = j
			}
			cp := make([]*hev, len(hs))
			for j, h := range hs {
				c := *h
				c.K = pos[h.K]
				cp[j] = &c
			}
			v = checkWhole(cp, 20*time.Second)
		} else {
			v = checkPerKey(hs, 30*time.Second)
		}
		switch {
		case v.Unknown:
			res.inconclusive(fmt.Sprintf("porcupine timed out on round %d (%s)", i, rd.desc()))
		case !v.OK:
			sig, ctx := classifyIllegal(v.Partition, rd.whole)
			res.violate(violation{Class: "linearizability", Sig: sig,
				Msg:  fmt.Sprintf("%s: history of key k%d is not linearizable (%d calls)", specName(rd.spec), v.Key, len(v.Partition)),
				Case: caseInfo(map[string]any{"witness": ctx, "partition": v.History})})
		}
	}
}

func min(a, b int) int {
	if a < b {
		return a
	}
	return b
}

// stableStorm: native-speed monitor for windows that are only nanoseconds wide.
// A set of stable keys is stored once and never touched again; readers look them
// up hundreds of thousands of times without recording anything (a stable key has
// exactly one legal answer), while other goroutines drive continuous grow / shrink
// cycles with keys of their own and update a few volatile keys in place. No
// perturbation: the point is the sheer number of lookups that straddle a table
// publication, a bucket copy or an in-place update.
func stableStorm(r rng, res *result, idx int64, name string, load func(int) (any, bool), store func(int, any), del func(int)) {
	nstable := pick(r, []int{4, 16, 64})
	stable := make([]any, nstable)
	for k := 0; k < nstable; k++ {
		stable[k] = nextVal(k)
		store(k, stable[k])
	}
	readers := r.between(2, 8)
	churners := r.between(1, 3)
	width := pick(r, []int{130, 300, 700})
	perReader := pick(r, []int{40000, 120000})
	logCase("stable-storm round %d %s stable=%d readers=%d churners=%d width=%d reads=%d", idx, name, nstable, readers, churners, width, perReader)
	old := runtime.GOMAXPROCS(16)
	vshim.SetPerturb(0, vshim.NKinds)
	vshim.ResetLive()
	vshim.SetMode(vshim.MCount | vshim.MBudget)
	var wg, cwg sync.WaitGroup
	var stop int32
	var misses, wrong int64
	var firstBad atomic.Value
	start := make(chan struct{})
	for g := 0; g < readers; g++ {
		wg.Add(1)
		go func(g int) {
			defer wg.Done()
			<-start
			k := g % nstable
			for j := 0; j < perReader; j++ {
				v, ok := load(k)
				if !ok {
					if atomic.AddInt64(&misses, 1) == 1 {
						firstBad.Store(fmt.Sprintf("Load(k%d) = (%s,false), stored once and never touched: %s", k, fmtVal(v), fmtVal(stable[k])))
					}
				} else if v != stable[k] {
					if atomic.AddInt64(&wrong, 1) == 1 {
						firstBad.Store(fmt.Sprintf("Load(k%d) = (%s,true), stored once and never touched: %s", k, fmtVal(v), fmtVal(stable[k])))
					}
				}
				k++
				if k == nstable {
					k = 0
				}
				if j&1023 == 0 {
					vshim.Progress()
				}
			}
		}(g)
	}
	for g := 0; g < churners; g++ {
		cwg.Add(1)
		go func(g int) {
			defer cwg.Done()
			<-start
			base := 1000 + g*width
			for atomic.LoadInt32(&stop) == 0 {
				for k := base; k < base+width; k++ {
					store(k, nextVal(k))
				}
				// in-place updates of a volatile key between the waves
				store(900+g, nextVal(900+g))
				for k := base; k < base+width; k++ {
					del(k)
				}
				vshim.Progress()
			}
		}(g)
	}
	// a volatile key, overwritten in place as fast as possible by one goroutine and read
	// by two: every value read must be one that was stored under it, whole (checksum)
	const volatileKey = 950
	var torn, vreads int64
	var firstTorn atomic.Value
	cwg.Add(1)
	go func() {
		defer cwg.Done()
		<-start
		for n := 0; atomic.LoadInt32(&stop) == 0; n++ {
			store(volatileKey, nextVal(volatileKey))
			if n&1023 == 0 {
				vshim.Progress()
			}
		}
	}()
	for g := 0; g < 2; g++ {
		cwg.Add(1)
		go func() {
			defer cwg.Done()
			<-start
			for n := 0; atomic.LoadInt32(&stop) == 0; n++ {
				v, ok := load(volatileKey)
				atomic.AddInt64(&vreads, 1)
				if ok {
					x, isVal := v.(val)
					if !isVal || !x.ok() || int(x.K) != volatileKey {
						if atomic.AddInt64(&torn, 1) == 1 {
							firstTorn.Store(fmt.Sprintf("Load(k%d) = (%s,true)", volatileKey, fmtVal(v)))
						}
					}
				}
				if n&1023 == 0 {
					vshim.Progress()
				}
			}
		}()
	}
	close(start)
	wg.Wait()
	atomic.StoreInt32(&stop, 1)
	cwg.Wait()
	vshim.SetMode(0)
	runtime.GOMAXPROCS(old)
	res.count("volatile_key_reads", atomic.LoadInt64(&vreads))
	if n := atomic.LoadInt64(&torn); n > 0 {
		msg, _ := firstTorn.Load().(string)
		res.violate(violation{Class: "stable-read", Sig: "a key overwritten in place is read with a value nobody stored (mixed from two writes, or stored under another key)",
			Msg: fmt.Sprintf("%s: %d of %d lookups; first: %s", name, n, atomic.LoadInt64(&vreads), msg), Case: map[string]any{"case_index": idx, "desc": name}})
	}
	res.Evaluations++
	res.count("family:stable-storm", 1)
	res.count("stable_reads", int64(readers*perReader))
	fp := newFP()
	fp.addStr("stable-storm" + name)
	fp.add(uint64(idx), uint64(readers), uint64(churners))
	res.nontrivial(fp.sum())
	if misses+wrong > 0 {
		msg, _ := firstBad.Load().(string)
		sig := "a key that is present and never modified is reported absent while the table is being resized"
		if wrong > 0 {
			sig = "a key that is never modified is read with a value that was never stored under it"
		}
		res.violate(violation{Class: "stable-read", Sig: sig, Msg: fmt.Sprintf("%s: %d misses, %d wrong values in %d lookups; first: %s", name, misses, wrong, readers*perReader, msg),
			Case: map[string]any{"case_index": idx, "desc": name}})
	}
}

// ownStorm: native-speed read-your-own-write monitor. Many goroutines store keys
// that only they touch into a fresh (minimal) table - so that it grows several
// times while they do - and load each key back at once; then all delete their
// keys - so that it shrinks - and check that they are gone. A write that returned
// but landed in a table that had already been replaced is seen by its own author.
func ownStorm(r rng, res *result, idx int64, name string, load func(int) (any, bool), store func(int, any), del func(int)) {
	// the large storms make many goroutines reach a grow threshold at the same moment:
	// most of them lose the race for the resize and wait, and come back late
	G := pick(r, []int{48, 128, 256, 1024, 2000})
	per := 4
	if G >= 1024 {
		per = 10
	}
	logCase("own-storm round %d %s goroutines=%d", idx, name, G)
	old := runtime.GOMAXPROCS(pick(r, []int{4, 8, 16}))
	mode := vshim.MCount | vshim.MBudget
	if r.chance(0.35) {
		// a third of the storms run with long pauses between adjacent loads / after a CAS instead of at native speed
		G, per = pick(r, []int{32, 96}), 4
		vshim.SetPerturb(2, pick(r, []vshim.Kind{vshim.KLoad, vshim.KLoad, vshim.KAfterCAS, vshim.KLock, vshim.KStore, vshim.KCondWait, vshim.KAfterUnlock}))
		mode |= vshim.MPerturb
	} else {
		vshim.SetPerturb(0, vshim.NKinds)
	}
	vshim.ResetLive()
	vshim.SetMode(mode)
	var wg sync.WaitGroup
	var lostN int64
	var first atomic.Value
	start := make(chan struct{})
	var phase2 sync.WaitGroup
	phase2.Add(G)
	gate := make(chan struct{})
	for g := 0; g < G; g++ {
		wg.Add(1)
		go func(g int) {
			defer wg.Done()
			<-start
			for j := 0; j < per; j++ {
				k := g*per + j
				v := nextVal(k)
				store(k, v)
				if got, ok := load(k); !ok || got != any(v) {
					if atomic.AddInt64(&lostN, 1) == 1 {
						first.Store(fmt.Sprintf("Store(k%d,%s) returned, the owner's next Load = (%s,%v)", k, fmtVal(v), fmtVal(got), ok))
					}
				}
			}
			vshim.Progress()
			phase2.Done()
			<-gate
			for j := 0; j < per; j++ {
				k := g*per + j
				del(k)
				if got, ok := load(k); ok {
					if atomic.AddInt64(&lostN, 1) == 1 {
						first.Store(fmt.Sprintf("Delete(k%d) returned, the owner's next Load = (%s,true)", k, fmtVal(got)))
					}
				}
			}
			vshim.Progress()
		}(g)
	}
	close(start)
	phase2.Wait()
	// quiescent point between the phases: every key must be there
	missing := 0
	for k := 0; k < G*per; k++ {
		if _, ok := load(k); !ok {
			missing++
		}
	}
	close(gate)
	wg.Wait()
	vshim.SetMode(0)
	runtime.GOMAXPROCS(old)
	res.Evaluations++
	res.count("family:own-storm", 1)
	res.count("own_write_readbacks", int64(2*G*per))
	fp := newFP()
	fp.addStr("own-storm" + name)
	fp.add(uint64(idx), uint64(G), uint64(res.Counters["family:own-storm"]))
	res.nontrivial(fp.sum())
	if lostN > 0 || missing > 0 {
		msg, _ := first.Load().(string)
		res.violate(violation{Class: "own-write", Sig: "a completed write is not visible to its own goroutine (single-owner key, no Clear in the round)",
			Msg: fmt.Sprintf("%s: %d read-back failures, %d of %d stored keys missing at the quiescent point; first: %s", name, lostN, missing, G*per, msg), Case: map[string]any{"case_index": idx, "desc": name}})
	}
}
