package main

import (
	"fmt"
	"sort"
	"sync/atomic"
	"time"

	"github.com/anishathalye/porcupine"
)

// ---- recorded histories ----

const (
	oLoad uint8 = iota
	oStore
	oLoadOrStore
	oLoadAndStore
	oLoadOrCompute
	oCompute
	oLoadAndDelete
	oDelete
	oClear
	// cache ops
	cSet
	cGet
	cGetWithExpiration
	cGetWithTTL
	cGetOrSet
	cGetAndSet
	cGetAndRefresh
	cGetOrCompute
	cCompute
	cGetAndDelete
	cDelete
	cDeleteExpired
	cClear
	nOpKinds
	oWaitSize uint8 = 200 // harness-internal pseudo operation (never recorded)
)

var opNames = [nOpKinds]string{"Load", "Store", "LoadOrStore", "LoadAndStore", "LoadOrCompute", "Compute", "LoadAndDelete", "Delete", "Clear",
	"Set", "Get", "GetWithExpiration", "GetWithTTL", "GetOrSet", "GetAndSet", "GetAndRefresh", "GetOrCompute", "Compute", "GetAndDelete", "Delete", "DeleteExpired", "Clear"}

const (
	fnSet uint8 = iota
	fnDel
	fnCond // delete if loaded, else set
)

// hev is one recorded call: input, output and the two tickets taken from one
// counter immediately before the call and immediately after the return.
type hev struct {
	Client int
	Kind   uint8
	K      int
	V      any   // value written (or that valueFn returns)
	Fn     uint8 // Compute flavour
	E      int64 // caches: expiry instant a storing call would arm (0 = never)
	Now    int64 // caches: frozen virtual instant of the phase
	Zero   any
	// outputs
	OutV   any
	OutOK  bool
	Calls  int
	Old    any
	Loaded bool
	OutE   int64 // GetWithExpiration: reported instant (0 = zero time); GetWithTTL: now+ttl (0 = NoExpiration)
	Call   int64
	Ret    int64
}

func (h *hev) String() string {
	s := fmt.Sprintf("c%d %s(k%d", h.Client, opNames[h.Kind], h.K)
	switch h.Kind {
	case oStore, oLoadOrStore, oLoadAndStore, oLoadOrCompute, cSet, cGetOrSet, cGetAndSet, cGetOrCompute:
		s += "," + fmtVal(h.V)
	case oCompute, cCompute:
		s += fmt.Sprintf(",fn%d->%s saw(%s,%v)x%d", h.Fn, fmtVal(h.V), fmtVal(h.Old), h.Loaded, h.Calls)
	}
	if h.Kind >= cSet && h.E != 0 {
		s += fmt.Sprintf(",e=+%d", h.E-h.Now)
	}
	s += fmt.Sprintf(") = (%s,%v)", fmtVal(h.OutV), h.OutOK)
	if h.Kind == cGetWithExpiration || h.Kind == cGetWithTTL {
		s += fmt.Sprintf(" e=%d", h.OutE)
	}
	return s + fmt.Sprintf(" [%d,%d]", h.Call, h.Ret)
}

var ticket int64

func tick() int64 { return atomic.AddInt64(&ticket, 1) }

// ---- sequential models for porcupine ----

type slot struct {
	P bool
	V any
	E int64
}

func (s slot) vis(now int64) bool { return s.P && (s.E == 0 || now <= s.E) }

// stepSlot applies one recorded call to the state of its key and says whether
// the recorded output is the one the sequential specification produces.
func stepSlot(s slot, h *hev) (bool, slot) {
	switch h.Kind {
	case oLoad:
		if s.P {
			return h.OutOK && h.OutV == s.V, s
		}
		return !h.OutOK && h.OutV == h.Zero, s
	case oStore:
		return true, slot{P: true, V: h.V}
	case oLoadOrStore:
		if s.P {
			return h.OutOK && h.OutV == s.V, s
		}
		return !h.OutOK && h.OutV == h.V, slot{P: true, V: h.V}
	case oLoadAndStore:
		if s.P {
			return h.OutOK && h.OutV == s.V, slot{P: true, V: h.V}
		}
		return !h.OutOK && h.OutV == h.V, slot{P: true, V: h.V}
	case oLoadOrCompute:
		if s.P {
			return h.OutOK && h.OutV == s.V && h.Calls == 0, s
		}
		return !h.OutOK && h.OutV == h.V && h.Calls == 1, slot{P: true, V: h.V}
	case oCompute:
		if h.Calls != 1 {
			return false, s
		}
		if s.P != h.Loaded || (s.P && h.Old != s.V) || (!s.P && h.Old != h.Zero) {
			return false, s
		}
		del := h.Fn == fnDel || (h.Fn == fnCond && s.P)
		if del {
			if s.P {
				return !h.OutOK && h.OutV == s.V, slot{}
			}
			return !h.OutOK && h.OutV == h.Zero, slot{}
		}
		return h.OutOK && h.OutV == h.V, slot{P: true, V: h.V}
	case oLoadAndDelete:
		if s.P {
			return h.OutOK && h.OutV == s.V, slot{}
		}
		return !h.OutOK && h.OutV == h.Zero, slot{}
	case oDelete, oClear, cClear, cDelete:
		return true, slot{}
	// ---- caches (TTL semantics; Now is frozen within a phase)
	case cSet:
		return true, slot{P: true, V: h.V, E: h.E}
	case cGet:
		if s.vis(h.Now) {
			return h.OutOK && h.OutV == s.V, s
		}
		return !h.OutOK && h.OutV == h.Zero, s
	case cGetWithExpiration, cGetWithTTL:
		if s.vis(h.Now) {
			return h.OutOK && h.OutV == s.V && h.OutE == s.E, s
		}
		return !h.OutOK && h.OutV == h.Zero, s
	case cGetOrSet:
		if s.vis(h.Now) {
			return h.OutOK && h.OutV == s.V, s
		}
		return !h.OutOK && h.OutV == h.V, slot{P: true, V: h.V, E: h.E}
	case cGetAndSet:
		if s.vis(h.Now) {
			return h.OutOK && h.OutV == s.V, slot{P: true, V: h.V, E: h.E}
		}
		return !h.OutOK && h.OutV == h.V, slot{P: true, V: h.V, E: h.E}
	case cGetAndRefresh:
		if s.vis(h.Now) {
			return h.OutOK && h.OutV == s.V, slot{P: true, V: s.V, E: h.E}
		}
		// the expired entry may or may not be physically dropped: logically absent either way
		return !h.OutOK && h.OutV == h.Zero, slot{}
	case cGetOrCompute:
		if s.vis(h.Now) {
			return h.OutOK && h.OutV == s.V && h.Calls == 0, s
		}
		return !h.OutOK && h.OutV == h.V && h.Calls == 1, slot{P: true, V: h.V, E: h.E}
	case cCompute:
		v := s.vis(h.Now)
		if h.Calls != 1 || v != h.Loaded || (v && h.Old != s.V) || (!v && h.Old != h.Zero) {
			return false, s
		}
		del := h.Fn == fnDel || (h.Fn == fnCond && v)
		if del {
			if v {
				return !h.OutOK && h.OutV == s.V, slot{}
			}
			return !h.OutOK && h.OutV == h.Zero, slot{}
		}
		return h.OutOK && h.OutV == h.V, slot{P: true, V: h.V, E: h.E}
	case cGetAndDelete:
		if s.vis(h.Now) {
			return h.OutOK && h.OutV == s.V, slot{}
		}
		return !h.OutOK && h.OutV == h.Zero, slot{}
	case cDeleteExpired:
		// no logical effect: an entry that is not visible is absent for every result
		if s.P && !s.vis(h.Now) {
			return true, slot{}
		}
		return true, s
	}
	panic("stepSlot: unknown kind")
}

// An expired entry is logically absent; normalise so that porcupine's state
// cache does not distinguish "expired, still there" from "gone".
func normSlot(s slot, now int64) slot {
	if s.P && !s.vis(now) {
		return slot{}
	}
	return s
}

func isGlobal(k uint8) bool { return k == oClear || k == cClear || k == cDeleteExpired }

var perKeyModel = porcupine.Model{
	Init: func() interface{} { return slot{} },
	Step: func(st, in, out interface{}) (bool, interface{}) {
		h := in.(*hev)
		ok, ns := stepSlot(st.(slot), h)
		if h.Kind >= cSet {
			ns = normSlot(ns, h.Now)
		}
		return ok, ns
	},
	DescribeOperation: func(in, out interface{}) string { return in.(*hev).String() },
}

// whole-map model for small unpartitioned histories over at most 4 keys
type smallState [4]slot

var wholeModel = porcupine.Model{
	Init: func() interface{} { return smallState{} },
	Step: func(st, in, out interface{}) (bool, interface{}) {
		h := in.(*hev)
		s := st.(smallState)
		if isGlobal(h.Kind) {
			for i := range s {
				_, s[i] = stepSlot(s[i], h)
				if h.Kind >= cSet {
					s[i] = normSlot(s[i], h.Now)
				}
			}
			return true, s
		}
		ok, ns := stepSlot(s[h.K], h)
		if h.Kind >= cSet {
			ns = normSlot(ns, h.Now)
		}
		s[h.K] = ns
		return ok, s
	},
	DescribeOperation: func(in, out interface{}) string { return in.(*hev).String() },
}

func toOps(hs []*hev) []porcupine.Operation {
	ops := make([]porcupine.Operation, len(hs))
	for i, h := range hs {
		ops[i] = porcupine.Operation{ClientId: h.Client, Input: h, Call: h.Call, Output: h, Return: h.Ret}
	}
	return ops
}

type linVerdict struct {
	OK        bool
	Unknown   bool
	Key       int // partition that failed (-1: whole)
	History   []string
	Partition []*hev
}

// checkPerKey partitions by key, copying every global call (Clear,
// DeleteExpired) into every partition. Sound: a linearizable history is never
// rejected; blind to a Clear that is atomic per key but not across keys.
func checkPerKey(hs []*hev, timeout time.Duration) linVerdict {
	parts := map[int][]*hev{}
	var globals []*hev
	for _, h := range hs {
		if isGlobal(h.Kind) {
			globals = append(globals, h)
		} else {
			parts[h.K] = append(parts[h.K], h)
		}
	}
	keys := make([]int, 0, len(parts))
	for k := range parts {
		keys = append(keys, k)
	}
	sort.Ints(keys)
	for _, k := range keys {
		p := append(append([]*hev{}, parts[k]...), globals...)
		r := porcupine.CheckOperationsTimeout(perKeyModel, toOps(p), timeout)
		if r == porcupine.Unknown {
			return linVerdict{Unknown: true, Key: k}
		}
		if r == porcupine.Illegal {
			return linVerdict{Key: k, History: describe(p), Partition: p}
		}
	}
	return linVerdict{OK: true}
}

func checkWhole(hs []*hev, timeout time.Duration) linVerdict {
	r := porcupine.CheckOperationsTimeout(wholeModel, toOps(hs), timeout)
	if r == porcupine.Unknown {
		return linVerdict{Unknown: true, Key: -1}
	}
	if r == porcupine.Illegal {
		return linVerdict{Key: -1, History: describe(hs), Partition: hs}
	}
	return linVerdict{OK: true}
}

func describe(hs []*hev) []string {
	s := append([]*hev{}, hs...)
	sort.Slice(s, func(i, j int) bool { return s[i].Call < s[j].Call })
	if len(s) > 400 {
		s = s[len(s)-400:]
	}
	out := make([]string, len(s))
	for i, h := range s {
		out[i] = h.String()
	}
	return out
}

// classifyIllegal gives a non-linearizable partition a signature and a short
// witness: porcupine's longest partial linearization is taken, the first call
// (by return ticket) that it could not place is the "stuck" call, and the calls
// overlapping it plus the tail of the partial linearization are the context.
func classifyIllegal(p []*hev, whole bool) (string, []string) {
	model := perKeyModel
	if whole {
		model = wholeModel
	}
	_, info := porcupine.CheckOperationsVerbose(model, toOps(p), 10*time.Second)
	pls := info.PartialLinearizationsOperations()
	var best []porcupine.Operation
	if len(pls) > 0 {
		for _, l := range pls[0] {
			if len(l) > len(best) {
				best = l
			}
		}
	}
	in := map[*hev]bool{}
	for _, o := range best {
		in[o.Input.(*hev)] = true
	}
	var stuck *hev
	for _, h := range p {
		if !in[h] && (stuck == nil || h.Ret < stuck.Ret) {
			stuck = h
		}
	}
	hasClear := false
	for _, h := range p {
		if h.Kind == oClear || h.Kind == cClear {
			hasClear = true
		}
	}
	var ctx []string
	if stuck == nil {
		return "non-linearizable history", describe(p)
	}
	ctx = append(ctx, "longest partial linearization ends with:")
	for i := len(best) - 6; i < len(best); i++ {
		if i >= 0 {
			ctx = append(ctx, "  "+best[i].Input.(*hev).String())
		}
	}
	ctx = append(ctx, "cannot be linearized next: "+stuck.String())
	ctx = append(ctx, "calls overlapping it:")
	for _, h := range p {
		if h != stuck && h.Call < stuck.Ret && stuck.Call < h.Ret {
			ctx = append(ctx, "  "+h.String())
		}
	}
	sig := fmt.Sprintf("non-linearizable history: %s cannot be placed", opNames[stuck.Kind])
	if hasClear {
		sig += " (history contains Clear)"
	}
	return sig, ctx
}

// selfCheck: a Compute-style call must be consistent with what its own user
// function was shown and returned, whatever the interleaving.
func selfCheck(h *hev) string {
	switch h.Kind {
	case oCompute, cCompute:
		if h.Calls != 1 {
			return ""
		}
		s := slot{}
		if h.Loaded {
			s = slot{P: true, V: h.Old}
		}
		if ok, _ := stepSlot(s, h); !ok {
			del := h.Fn == fnDel || (h.Fn == fnCond && h.Loaded)
			what := "store"
			if del {
				what = "delete=true"
			}
			st := "absent"
			if h.Loaded {
				st = "present"
			}
			return fmt.Sprintf("Compute(%s key, %s) returns a result inconsistent with its own valueFn", st, what)
		}
	}
	return ""
}

// overlapping same-key pairs and an interleaving fingerprint
func historyShape(hs []*hev) (overlaps int, fp uint64) {
	type ev struct {
		t    int64
		c    int
		kind uint8
		ret  bool
	}
	evs := make([]ev, 0, 2*len(hs))
	for _, h := range hs {
		evs = append(evs, ev{h.Call, h.Client, h.Kind, false}, ev{h.Ret, h.Client, h.Kind, true})
	}
	sort.Slice(evs, func(i, j int) bool { return evs[i].t < evs[j].t })
	f := newFP()
	for _, e := range evs {
		x := uint64(e.c)<<16 | uint64(e.kind)<<1
		if e.ret {
			x |= 1
		}
		f.add(x)
	}
	byKey := map[int][]*hev{}
	for _, h := range hs {
		if !isGlobal(h.Kind) {
			byKey[h.K] = append(byKey[h.K], h)
		}
	}
	for _, p := range byKey {
		sort.Slice(p, func(i, j int) bool { return p[i].Call < p[j].Call })
		for i := range p {
			for j := i + 1; j < len(p) && p[j].Call < p[i].Ret; j++ {
				if p[i].Client != p[j].Client {
					overlaps++
				}
			}
		}
	}
	return overlaps, f.sum()
}
