package main

import (
	"fmt"

	"github.com/fufuok/cache/zzverif/vshim"
)

func init() { engines["pairstall"] = runPairStall }

// Two-goroutine schedule enumeration (fault enumeration of stall points, second
// form). A resizer R (a batch of inserts that grows the table, a batch of deletes
// that shrinks it, or Clear) is parked at shim step M of its operation; a writer W
// then runs alone until its own step N and is parked there (or until it blocks on
// something R holds); R is resumed and runs to completion (or until it blocks on
// something W holds); W is resumed. M and N are enumerated. Afterwards both
// calls have returned and the oracle is exact: W's write must be visible (it
// started before R finished and finished after: no Clear means nothing may
// remove it), every untouched key must still be there with its value, R's own
// keys must be in their final state, Size must agree, and for R = Clear every
// key stored before Clear was invoked must be gone.

type pairTarget struct {
	name  string
	load  func(k int) (any, bool)
	store func(k int, v any)
	del   func(k int)
	los   func(k int, v any) (any, bool) // LoadOrStore / GetOrSet
	comp  func(k int, fn func(old any, loaded bool) (any, bool)) (any, bool)
	clear func()
	size  func() int
	stats func() (growths, shrinks int64)
}

var pairKinds = []string{"Map", "MapOf[int,val]", "MapOf[string,val]/mix", "MapOf[skey,val]/sameh2", "Cache", "CacheOf[int,val]"}

func newPairTarget(kind string) *pairTarget {
	st := newStallTarget(rng{}, kind, 2048)
	t := &pairTarget{name: kind, load: st.load[0], store: st.store, del: st.del, comp: st.compute, clear: st.clear, size: st.size, stats: st.stats}
	if len(st.hit) > 0 {
		t.los = st.hit[0]
	}
	return t
}

type pairResizer struct {
	maxM    int64 // 0: enumerate every stall point of R
	name    string
	base    int
	prep    func(t *pairTarget)
	run     func(t *pairTarget)
	final   map[int]bool // keys R leaves present (true) / absent (false)
	isClear bool
}

func pairResizers() []pairResizer {
	grow := map[int]bool{}
	for k := 1000; k < 1030; k++ {
		grow[k] = true
	}
	gs := map[int]bool{}
	for k := 1000; k < 1140; k++ {
		gs[k] = false
	}
	shr := map[int]bool{}
	for k := 1590; k < 1600; k++ {
		shr[k] = false
	}
	return []pairResizer{
		{name: "grow-batch", base: 66, run: func(t *pairTarget) {
			for k := 1000; k < 1030; k++ {
				t.store(k, mkVal(k, int64(k)))
			}
		}, final: grow},
		{name: "grow-batch-mapof", base: 112, run: func(t *pairTarget) {
			for k := 1000; k < 1030; k++ {
				t.store(k, mkVal(k, int64(k)))
			}
		}, final: grow},
		{name: "shrink-batch", base: 3, prep: func(t *pairTarget) {
			for k := 1300; k < 1600; k++ {
				t.store(k, mkVal(k, int64(k)))
			}
			for k := 1300; k < 1590; k++ {
				t.del(k)
			}
		}, run: func(t *pairTarget) {
			for k := 1590; k < 1600; k++ {
				t.del(k)
			}
		}, final: shr},
		// the same with nothing else in the table: while the writer's entry is not counted
		// yet, the striped counter reads zero when the shrink decides what to copy
		{name: "shrink-to-empty", base: 0, prep: func(t *pairTarget) {
			for k := 1300; k < 1600; k++ {
				t.store(k, mkVal(k, int64(k)))
			}
			for k := 1300; k < 1590; k++ {
				t.del(k)
			}
		}, run: func(t *pairTarget) {
			for k := 1590; k < 1600; k++ {
				t.del(k)
			}
		}, final: shr},
		{name: "clear", base: 40, run: func(t *pairTarget) { t.clear() }, isClear: true},
		// Clear of a table that has grown and is one delete away from its shrink
		// threshold: a delete in flight across the Clear finishes on the retired table
		// and asks for a shrink, quoting a table that is not the current one any more
		{name: "clear-near-shrink", base: 8, prep: func(t *pairTarget) {
			d := calibrateNearShrink(t.name)
			for k := 1000; k < 1800; k++ {
				t.store(k, mkVal(k, int64(k)))
			}
			for k := 1000; k < 1000+d-1; k++ {
				t.del(k)
			}
		}, run: func(t *pairTarget) { t.clear() }, isClear: true},
		// the table is replaced twice and ends up with its old length (and a new identity)
		// while the writer is suspended: only R's first stall points matter
		{name: "grow-then-shrink", maxM: 2, base: 1, run: func(t *pairTarget) {
			for k := 1000; k < 1140; k++ {
				t.store(k, mkVal(k, int64(k)))
			}
			for k := 1000; k < 1140; k++ {
				t.del(k)
			}
		}, final: gs},
	}
}

// calibrateNearShrink: how many of the 800 filler keys must be deleted (on top of
// 8 base keys) until the first shrink happens, per container kind (the two table
// layouts have different thresholds). 0: unknown (no statistics available).
var nearShrinkDeletes = map[string]int{}

func calibrateNearShrink(kind string) int {
	if d, ok := nearShrinkDeletes[kind]; ok {
		return d
	}
	t := newPairTarget(kind)
	for k := 0; k < 8; k++ {
		t.store(k, mkVal(k, int64(1000+k)))
	}
	for k := 1000; k < 1800; k++ {
		t.store(k, mkVal(k, int64(k)))
	}
	_, s0 := t.stats()
	d := 0
	for k := 1000; k < 1800; k++ {
		t.del(k)
		if _, s1 := t.stats(); s1 > s0 {
			d = k - 1000 + 1
			break
		}
	}
	nearShrinkDeletes[kind] = d
	return d
}

const pX = 7   // a key that is present before (stable base key)
const pY = 900 // a key that is absent before

type pairWriter struct {
	name string
	key  int
	run  func(t *pairTarget, v any)
	gone bool // the key must be absent afterwards
}

func pairWriters() []pairWriter {
	return []pairWriter{
		{"update", pX, func(t *pairTarget, v any) { t.store(pX, v) }, false},
		{"insert", pY, func(t *pairTarget, v any) { t.store(pY, v) }, false},
		{"delete", pX, func(t *pairTarget, v any) { t.del(pX) }, true},
		{"compute-insert", pY, func(t *pairTarget, v any) {
			t.comp(pY, func(old any, l bool) (any, bool) { return v, false })
		}, false},
	}
}

func runPairStall(a *args, res *result) {
	res.Rule = "scenario = (container kind, resizer operation R, R's stall point M, writer operation W, W's stall point N): R is parked at its shim step M, W runs alone to its step N (or until it blocks on R), R is resumed to completion (or until it blocks on W), W is resumed; then the exact oracle: W's write visible, untouched keys intact, R's keys in their final state, Size exact, after Clear every earlier key gone; M and N enumerated until the operations complete without parking; non-trivial = both goroutines were really parked mid-operation; distinct = (kind, R, M, W, N)"
	vshim.SetVirtual(true)
	vshim.SetVNow(epoch)
	stuckCh := make(chan string, 2)
	vshim.OnStuck = func(reason string) {
		stuckCh <- reason
		select {}
	}
	kinds := pairKinds
	keepR := func(name string) bool { return true }
	keepW := func(name string) bool { return true }
	switch a.prop {
	case "C03":
		kinds = []string{"Map"}
	case "C04", "C10":
		kinds = []string{"MapOf[int,val]", "MapOf[string,val]/mix", "MapOf[skey,val]/sameh2"}
	case "C02", "C01":
		kinds = []string{"Cache", "CacheOf[int,val]"}
		if a.prop == "C01" {
			// "an unexpired value is never dropped by internal table resizing"
			keepR = func(name string) bool { return name != "clear" }
			keepW = func(name string) bool { return name == "insert" || name == "update" }
		}
	case "C12":
		kinds = []string{"Map", "MapOf[string,any]", "Cache", "CacheOf[string,any]"}
	case "C11":
		kinds = []string{"Map", "MapOf[int,val]"}
	case "C05", "C13":
		kinds = []string{"Map", "MapOf[int,val]", "Cache", "CacheOf[int,val]"}
	}
	if a.prop == "C05" || a.prop == "C11" || a.prop == "C12" || a.prop == "C13" {
		// a lighter selection: the resizes that matter for "nothing lost across a retry"
		keepR = func(name string) bool {
			return name != "shrink-batch" && name != "clear" && (name != "shrink-to-empty" || a.prop == "C11")
		}
		if a.prop == "C11" {
			keepR = func(name string) bool { return name != "clear" }
		}
		keepW = func(name string) bool { return name == "compute-insert" || name == "update" || name == "delete" }
	}
	unit := int64(0)
	for round := int64(0); round < a.n; round++ {
		for _, kind := range kinds {
			mapLike := kind == "Map" || kind == "Cache"
			if a.prop == "C12" && round == 0 {
				// twins: the same enumeration on both members of each pair
			}
			for _, rz := range pairResizers() {
				// the grow batches are sized for the thresholds of the two table layouts
				if (rz.name == "grow-batch" && !mapLike) || (rz.name == "grow-batch-mapof" && mapLike) {
					continue
				}
				if !keepR(rz.name) {
					continue
				}
				if rz.name == "clear-near-shrink" && calibrateNearShrink(kind) < 2 {
					continue
				}
				for _, wr := range pairWriters() {
					if !keepW(wr.name) {
						continue
					}
					unit++
					if !a.mine(unit - 1) {
						continue
					}
					pairEnumerate(res, kind, rz, wr, round, stuckCh)
				}
			}
		}
	}
	runHarass(a, res, &unit, stuckCh)
	vshim.SetTokenMode(false)
	res.sample(map[string]any{"kinds": pairKinds, "resizers": []string{"grow-batch", "grow-batch-mapof", "shrink-batch", "clear"}, "writers": []string{"update", "insert", "delete", "compute-insert"}})
}

func aftermath(t *pairTarget) (msg string) {
	defer func() {
		if p := recover(); p != nil {
			msg = fmt.Sprintf("a call panics: %v", p)
		}
	}()
	for i := 0; i < 10; i++ {
		k := 1900 + i
		v := mkVal(k, int64(i))
		t.store(k, v)
		if got, ok := t.load(k); !ok || got != any(v) {
			return fmt.Sprintf("k%d = (%s,%v) right after Store", k, fmtVal(got), ok)
		}
		t.del(k)
		if got, ok := t.load(k); ok {
			return fmt.Sprintf("k%d = %s right after Delete", k, fmtVal(got))
		}
	}
	return ""
}

func pairEnumerate(res *result, kind string, rz pairResizer, wr pairWriter, round int64, stuckCh chan string) {
	maxN := 0
	missesM := 0
	for M := int64(1); missesM < 3 && M < 1500 && (rz.maxM == 0 || M <= rz.maxM); M++ {
		// enumerate W's stall points for this M; stop early when W never parks
		missesN := 0
		parkedAnyN := false
		for N := int64(1); missesN < 2 && N < 60; N++ {
			t := newPairTarget(kind)
			stable := map[int]any{}
			for k := 0; k < rz.base; k++ {
				v := mkVal(k, int64(1000+k))
				t.store(k, v)
				stable[k] = v
			}
			if rz.prep != nil {
				rz.prep(t)
			}
			logCase("pairstall round %d %s R=%s M=%d W=%s N=%d", round, kind, rz.name, M, wr.name, N)
			res.Evaluations++
			vshim.SetTokenMode(true)
			vshim.ResetGStep()
			vshim.SetStepBudget(0)
			vshim.SetMode(vshim.MGlobal | vshim.MPoll | vshim.MCount)
			rdone := make(chan struct{})
			wdone := make(chan struct{})
			vshim.ArmPark(M)
			go func() { rz.run(t); close(rdone) }()
			var rtok *vshim.ParkToken
			select {
			case rtok = <-vshim.ParkedTokens():
			case <-rdone:
			}
			if rtok == nil {
				vshim.ArmPark(0)
				vshim.SetMode(0)
				missesM++
				missesN = 99
				break
			}
			missesM = 0
			// ---- W runs alone up to its N-th step
			wv := any(mkVal(wr.key, 777000+int64(N)))
			vshim.ArmPark(vshim.GStep() + N)
			vshim.ArmSpinNotify()
			go func() { wr.run(t, wv); close(wdone) }()
			var wtok *vshim.ParkToken
			wBlocked, wFinished := false, false
			select {
			case wtok = <-vshim.ParkedTokens():
			case <-vshim.SpinNotified():
				wBlocked = true // W waits for something R holds: legitimate, let R go on
			case <-wdone:
				wFinished = true
			}
			vshim.ArmPark(0)
			if wtok != nil && wtok.Spinning() {
				// W reached step N while already waiting for R: further N only walk its wait loop
				missesN = 99
			}
			if wtok != nil {
				parkedAnyN = true
				if missesN < 99 {
					missesN = 0
				}
				if int(N) > maxN {
					maxN = int(N)
				}
				res.count("scenarios_both_parked", 1)
				fp := newFP()
				fp.addStr(kind + rz.name + wr.name)
				fp.add(uint64(M), uint64(N))
				res.nontrivial(fp.sum())
			} else {
				missesN++
			}
			// ---- resume R; it completes unless it needs something W holds
			vshim.ArmSpinNotify()
			vshim.SetStepBudget(1 << 23) // R either finishes, or waits for W (spin notification), or is stuck
			rtok.Resume()
			rFinished := false
			stuck := ""
			select {
			case <-rdone:
				rFinished = true
			case <-vshim.SpinNotified():
				// R waits for W (W is parked holding a bucket): resume W, both must finish
			case stuck = <-stuckCh:
			}
			vshim.DisarmSpinNotify()
			if wtok != nil {
				wtok.Resume()
			}
			// both must complete now; a generous step budget turns a hang into a finding.
			// A park that fires late (W reached its step N while it was already waiting for
			// R) is released at once.
			vshim.SetStepBudget(1 << 22)
			for stuck == "" && !(rFinished && wFinished) {
				rd, wd := rdone, wdone
				if rFinished {
					rd = nil
				}
				if wFinished {
					wd = nil
				}
				select {
				case <-rd:
					rFinished = true
				case <-wd:
					wFinished = true
				case late := <-vshim.ParkedTokens():
					late.Resume()
				case stuck = <-stuckCh:
				}
			}
			vshim.SetStepBudget(0)
			vshim.SetMode(0)
			_ = wBlocked
			ci := map[string]any{"case_index": round, "kind": kind, "resizer": rz.name, "M": M, "writer": wr.name, "N": N}
			bad := func(sig, msg string) {
				res.violate(violation{Class: "pairstall", Sig: sig, Msg: fmt.Sprintf("%s, R=%s parked at step %d, W=%s parked at step %d: %s", kind, rz.name, M, wr.name, N, msg), Case: ci})
			}
			if stuck != "" {
				bad("a call does not return when another one was suspended mid-operation and later resumed", stuck)
				return
			}
			// ---- exact oracle at quiescence
			if rz.isClear {
				for k := range stable {
					if k == wr.key {
						continue
					}
					if v, ok := t.load(k); ok {
						bad("an entry stored before Clear was invoked is still present after Clear returned", fmt.Sprintf("k%d = %s", k, fmtVal(v)))
						return
					}
				}
				// W overlapped Clear: its key is either in W's final state or cleared
				if v, ok := t.load(wr.key); ok && v != wv {
					bad("a key holds a value that neither the overlapping writer nor Clear can explain", fmt.Sprintf("k%d = %s", wr.key, fmtVal(v)))
				}
			} else {
				v, ok := t.load(wr.key)
				if wr.gone {
					if ok {
						bad("a completed Delete is undone by an overlapping resize", fmt.Sprintf("k%d = %s after Delete returned", wr.key, fmtVal(v)))
						return
					}
				} else if !ok || v != wv {
					bad("a completed write is lost to an overlapping resize", fmt.Sprintf("k%d = (%s,%v) after the write of %s returned", wr.key, fmtVal(v), ok, fmtVal(wv)))
					return
				}
				for k, want := range stable {
					if k == wr.key {
						continue
					}
					if v, ok := t.load(k); !ok || v != want {
						bad("an untouched entry is lost or changed by a resize overlapping a writer", fmt.Sprintf("k%d = (%s,%v), stored %s", k, fmtVal(v), ok, fmtVal(want)))
						return
					}
				}
				for k, present := range rz.final {
					if _, ok := t.load(k); ok != present {
						bad("the resizing call's own keys are not in their final state", fmt.Sprintf("k%d present=%v, want %v", k, ok, present))
						return
					}
				}
				want := len(stable)
				_, wasPresent := stable[wr.key]
				if wr.gone && wasPresent {
					want--
				} else if !wr.gone && !wasPresent {
					want++
				}
				for _, present := range rz.final {
					if present {
						want++
					}
				}
				if n := t.size(); n != want {
					bad("Size is wrong after a resize overlapped a writer", fmt.Sprintf("Size()=%d, %d keys are present", n, want))
					return
				}
			}
			// ---- aftermath: the container must stay usable (a table left in a state that
			// only breaks later - e.g. shrunk below its minimum - shows within a few empty-outs)
			if msg := aftermath(t); msg != "" {
				bad("the container is unusable after a resize overlapped a writer", msg)
				return
			}
		}
		if !parkedAnyN && missesM == 0 {
			// W never got to park at this M (it blocked at once or finished): fine, next M
		}
	}
	res.max("max_writer_stall_points", int64(maxN))
}
