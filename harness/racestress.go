package main

import (
	"fmt"
	"runtime"
	"strings"
	"sync"
	"sync/atomic"
	"time"

	cache "github.com/fufuok/cache"
	"github.com/fufuok/cache/zzverif/vshim"
)

func init() { engines["racestress"] = runRaceStress }

// C14: built with -race. Many goroutines use every method of one shared
// container; values are pointers to freshly initialised memory written with
// plain stores and read back with plain loads by every party that obtains them
// (readers, visitors, valueFn old values, evicted callbacks): an unsafely
// published value is a race report and/or a checksum failure.

func mkPayload(key int, seq int64) *payload {
	p := &payload{}
	p.key = key
	p.seq = seq
	for i := range p.data {
		p.data[i] = uint64(seq)*0x9e3779b97f4a7c15 + uint64(i)
	}
	p.sum = uint64(key)*31 + uint64(seq)
	for _, d := range p.data {
		p.sum ^= d
	}
	return p
}

var payloadChecks, payloadBad int64

func verifyPayload(v any, key int, what string, res *result) {
	if v == nil {
		return
	}
	p, ok := v.(*payload)
	if !ok || p == nil {
		return
	}
	atomic.AddInt64(&payloadChecks, 1)
	sum := uint64(p.key)*31 + uint64(p.seq)
	for _, d := range p.data {
		sum ^= d
	}
	if sum != p.sum || (key >= 0 && p.key != key) {
		if atomic.AddInt64(&payloadBad, 1) < 10 {
			res.violate(violation{Class: "publication", Sig: "value obtained from the container is torn or belongs to another key", Msg: fmt.Sprintf("%s: key %d got payload{key:%d seq:%d sum ok:%v}", what, key, p.key, p.seq, sum == p.sum)})
		}
	}
}

type raceCfg struct {
	kind       string
	goroutines int
	ops        int
	keys       int
	level      int
	procs      int
}

func runRaceStress(a *args, res *result) {
	res.Rule = "configuration = (container kind of the four, 2..64 goroutines, key universe 8..4000 so that tables keep growing/shrinking or stay maximally contended, perturbation 0/1, GOMAXPROCS 2/16) x ops; all methods incl. SetDefaultExpiration/SetEvictedCallback racing reads and writes, a real 1ms janitor, Range/Items during writes, Clear; built with -race, verdict = WARNING: DATA RACE blocks in the detector's log + payload checksums; distinct = configuration hash; every configuration is non-trivial (all goroutines share one container)"
	if !vshim.RaceBuild {
		res.inconclusive("racestress must be built with -race")
		return
	}
	// the /const and /mod2 kinds put every key into one or two bucket chains with one 7-bit
	// hash, so that every lookup walks freshly appended overflow buckets and entries
	// the string / struct / interface key kinds reach the other branches of the default hasher
	kinds := []string{"Map", "MapOf[int,*payload]", "Cache", "CacheOf[int,*payload]", "MapOf[int,*payload]/const", "MapOf[int,*payload]/mod2",
		"MapOf[string,*payload]", "MapOf[skey,*payload]", "MapOf[any,*payload]"}
	// perturbation is configured once, before any goroutine runs library code:
	// janitors of earlier configurations may still be alive later on
	level := 0
	if a.extra == "perturb" {
		level = 1
	}
	vshim.SetPerturb(level, vshim.NKinds)
	idx := int64(0)
	for rep := int64(0); rep < a.n; rep++ {
		for _, kind := range kinds {
			for _, procs := range []int{2, 16} {
				idx++
				if !a.mine(idx - 1) {
					continue
				}
				r := newRng(a.seed, uint64(idx)*8+1)
				cfg := raceCfg{kind: kind, goroutines: pick(r, []int{2, 4, 8, 16, 24, 64}), ops: int(a.n2), keys: pick(r, []int{8, 64, 300, 1200, 4000}), level: level, procs: procs}
				if strings.Contains(kind, "/") {
					cfg.keys = pick(r, []int{8, 24, 64})
				}
				logCase("racestress %+v", cfg)
				runRaceCfg(cfg, r, res)
				res.Evaluations++
				fp := newFP()
				fp.addStr(fmt.Sprintf("%+v", cfg))
				res.nontrivial(fp.sum())
				res.sample(fmt.Sprintf("%+v", cfg))
			}
		}
	}
	// ---- several containers at once: state shared between containers (package-level
	// variables of the library) is only touched concurrently when two of them allocate,
	// resize or clear at the same time
	if a.mine(idx) {
		logCase("racestress four containers side by side")
		raceSideBySide(a, res)
		res.Evaluations++
		fp := newFP()
		fp.addStr("side-by-side")
		res.nontrivial(fp.sum())
	}
	res.count("payload_reads_verified", atomic.LoadInt64(&payloadChecks))
}

func raceSideBySide(a *args, res *result) {
	old := runtime.GOMAXPROCS(16)
	defer runtime.GOMAXPROCS(old)
	var seq int64
	next := func(k int) *payload { return mkPayload(k, atomic.AddInt64(&seq, 1)) }
	const keys = 600
	type tgt struct {
		store func(k int, v any)
		load  func(k int) (any, bool)
		del   func(k int)
		clear func()
	}
	mk := func(kind string) tgt {
		switch kind {
		case "Map", "MapOf[int,*payload]":
			m := newMap(mapSpec{Flavor: kind, Hint: noHint, NKeys: keys})
			return tgt{m.Store, m.Load, m.Delete, m.Clear}
		default:
			c := newCache(cacheSpec{Flavor: kind, Ctor: "New", OptMask: 1 | 2, DefExp: time.Hour, Interval: time.Millisecond, NKeys: keys})
			return tgt{func(k int, v any) { c.Set(k, v, time.Hour) }, c.Get, c.Delete, c.Clear}
		}
	}
	var wg sync.WaitGroup
	ops := int(a.n2) / 8
	for gi, kind := range []string{"Map", "MapOf[int,*payload]", "Cache", "CacheOf[int,*payload]"} {
		for rep := 0; rep < 2; rep++ {
			wg.Add(1)
			go func(kind string, g int) {
				defer wg.Done()
				rr := newRng(a.seed, uint64(g)+900)
				t := mk(kind) // constructed by the goroutine that uses it
				for i := 0; i < ops; i++ {
					k := rr.intn(keys)
					switch rr.intn(40) {
					case 0:
						t.clear()
					case 1:
						t = mk(kind) // a fresh container: another table allocation
					case 2, 3, 4, 5, 6, 7, 8, 9:
						v, _ := t.load(k)
						verifyPayload(v, k, "Load", res)
					case 10, 11, 12, 13:
						t.del(k)
					default:
						t.store(k, next(k))
					}
				}
			}(kind, gi*2+rep)
		}
	}
	wg.Wait()
}

const jitterKeys = 4200

// shrinkJitter: a grown table is drained by the calling goroutine through every
// shrink threshold while other goroutines keep inserting and deleting a small
// set of keys, so that the size oscillates around each threshold and shrink
// attempts are started, abandoned and raced.
func shrinkJitter(cfg raceCfg, fill func(), store func(int), del func(int), size func() int, seeds []uint64) {
	n := cfg.goroutines
	if n > 14 {
		n = 14
	}
	for round := 0; round < 6; round++ {
		fill()
		var wg sync.WaitGroup
		stop := make(chan struct{})
		for g := 0; g < n; g++ {
			wg.Add(1)
			go func(g int) {
				defer wg.Done()
				rr := newRng(int64(seeds[g%len(seeds)]), uint64(g)+77+uint64(round)*100)
				for {
					select {
					case <-stop:
						return
					default:
					}
					k := rr.intn(96)
					if rr.intn(2) == 0 {
						store(k)
					} else {
						del(k)
					}
				}
			}(g)
		}
		for k := jitterKeys - 1; k >= 96; k-- {
			del(k)
		}
		close(stop)
		wg.Wait()
		_ = size()
	}
}

func runRaceCfg(cfg raceCfg, r rng, res *result) {
	old := runtime.GOMAXPROCS(cfg.procs)
	defer runtime.GOMAXPROCS(old)
	var seq int64
	next := func(k int) *payload { return mkPayload(k, atomic.AddInt64(&seq, 1)) }
	var wg sync.WaitGroup
	perG := cfg.ops / cfg.goroutines
	seeds := make([]uint64, cfg.goroutines)
	for i := range seeds {
		seeds[i] = r.Uint64()
	}
	switch cfg.kind {
	case "Map", "MapOf[int,*payload]", "MapOf[int,*payload]/const", "MapOf[int,*payload]/mod2", "MapOf[string,*payload]", "MapOf[skey,*payload]", "MapOf[any,*payload]":
		flavor, hasher, _ := strings.Cut(cfg.kind, "/")
		m := newMap(mapSpec{Flavor: flavor, Hasher: hasher, Hint: noHint, NKeys: cfg.keys})
		for g := 0; g < cfg.goroutines; g++ {
			wg.Add(1)
			go func(g int) {
				defer wg.Done()
				rr := newRng(int64(seeds[g]), uint64(g))
				for i := 0; i < perG; i++ {
					k := rr.intn(cfg.keys)
					switch rr.intn(20) {
					case 0, 1, 2, 3, 4:
						v, _ := m.Load(k)
						verifyPayload(v, k, "Load", res)
					case 5, 6, 7:
						m.Store(k, next(k))
					case 8:
						v, _ := m.LoadOrStore(k, next(k))
						verifyPayload(v, k, "LoadOrStore", res)
					case 9:
						v, _ := m.LoadAndStore(k, next(k))
						verifyPayload(v, k, "LoadAndStore", res)
					case 10:
						v, _ := m.LoadOrCompute(k, func() any { return next(k) })
						verifyPayload(v, k, "LoadOrCompute", res)
					case 11, 12:
						v, _ := m.Compute(k, func(old any, loaded bool) (any, bool) {
							verifyPayload(old, k, "Compute old value", res)
							return next(k), rr.intn(4) == 0
						})
						verifyPayload(v, k, "Compute", res)
					case 13, 14:
						v, _ := m.LoadAndDelete(k)
						verifyPayload(v, k, "LoadAndDelete", res)
					case 15, 16:
						m.Delete(k)
					case 17:
						n := 0
						m.Range(func(kk int, v any) bool {
							verifyPayload(v, kk, "Range", res)
							n++
							return n < 200
						})
					case 18:
						_ = m.Size()
					default:
						if rr.intn(40) == 0 {
							m.Clear()
						} else if rr.intn(30) == 0 {
							// full drain: lets the table shrink
							for j := 0; j < cfg.keys; j++ {
								m.Delete(j)
							}
						} else {
							// drain / refill wave over a slice of the universe
							lo := rr.intn(cfg.keys)
							for j := lo; j < lo+40 && j < cfg.keys; j++ {
								m.Delete(j)
							}
						}
					}
				}
			}(g)
		}
		wg.Wait()
		// shrink-jitter phase: a grown table is drained through every shrink
		// threshold while other goroutines keep its size jittering around them
		m2 := newMap(mapSpec{Flavor: flavor, Hint: noHint, NKeys: jitterKeys})
		shrinkJitter(cfg, func() {
			for k := 0; k < jitterKeys; k++ {
				m2.Store(k, next(k))
			}
		}, func(k int) { m2.Store(k, next(k)) }, m2.Delete, m2.Size, seeds)
		if st, ok := mapStats(m2); ok {
			res.count("growths", st.TotalGrowths)
			res.count("shrinks", st.TotalShrinks)
		}
		if st, ok := mapStats(m); ok {
			res.count("growths", st.TotalGrowths)
			res.count("shrinks", st.TotalShrinks)
		}
	default:
		cb := func(k int, v any) { verifyPayload(v, k, "evicted callback", res) }
		c := newCache(cacheSpec{Flavor: cfg.kind, Ctor: "New", OptMask: 1 | 2 | 4, DefExp: 2 * time.Millisecond, Interval: time.Millisecond, Callback: cb, NKeys: cfg.keys})
		ttls := []time.Duration{cache.NoExpiration, cache.DefaultExpiration, time.Millisecond, 200 * time.Microsecond, time.Hour, 0}
		for g := 0; g < cfg.goroutines; g++ {
			wg.Add(1)
			go func(g int) {
				defer wg.Done()
				rr := newRng(int64(seeds[g]), uint64(g))
				for i := 0; i < perG; i++ {
					k := rr.intn(cfg.keys)
					d := pick(rr, ttls)
					switch rr.intn(26) {
					case 0, 1, 2:
						v, _ := c.Get(k)
						verifyPayload(v, k, "Get", res)
					case 3:
						v, _, _ := c.GetWithExpiration(k)
						verifyPayload(v, k, "GetWithExpiration", res)
					case 4:
						v, _, _ := c.GetWithTTL(k)
						verifyPayload(v, k, "GetWithTTL", res)
					case 5, 6, 7:
						c.Set(k, next(k), d)
					case 8:
						c.SetDefault(k, next(k))
					case 9:
						c.SetForever(k, next(k))
					case 10:
						v, _ := c.GetOrSet(k, next(k), d)
						verifyPayload(v, k, "GetOrSet", res)
					case 11:
						v, _ := c.GetAndSet(k, next(k), d)
						verifyPayload(v, k, "GetAndSet", res)
					case 12:
						v, _ := c.GetAndRefresh(k, d)
						verifyPayload(v, k, "GetAndRefresh", res)
					case 13:
						v, _ := c.GetOrCompute(k, func() any { return next(k) }, d)
						verifyPayload(v, k, "GetOrCompute", res)
					case 14, 15:
						v, _ := c.Compute(k, func(old any, loaded bool) (any, bool) {
							verifyPayload(old, k, "Compute old value", res)
							return next(k), rr.intn(4) == 0
						}, d)
						verifyPayload(v, k, "Compute", res)
					case 16:
						v, _ := c.GetAndDelete(k)
						verifyPayload(v, k, "GetAndDelete", res)
					case 17:
						c.Delete(k)
					case 18:
						c.DeleteExpired()
					case 19:
						n := 0
						c.Range(func(kk int, v any) bool {
							verifyPayload(v, kk, "Range", res)
							n++
							return n < 200
						})
					case 20:
						if rr.intn(8) == 0 {
							for kk, v := range c.Items() {
								verifyPayload(v, kk, "Items", res)
							}
						}
					case 21:
						_ = c.Count()
						_ = c.DefaultExpiration()
					case 22:
						c.SetDefaultExpiration(pick(rr, []time.Duration{time.Millisecond, 3 * time.Millisecond, cache.NoExpiration}))
					case 23:
						if x := rr.intn(5); x == 0 {
							c.SetEvictedCallback(nil)
						} else if x < 3 {
							c.SetEvictedCallback(cb)
						} else {
							c.SetEvictedCallback(func(k int, v any) { verifyPayload(v, k, "evicted callback 2", res) })
						}
						_ = c.HasEvictedCallback()
					default:
						if rr.intn(40) == 0 {
							c.Clear()
						} else if rr.intn(30) == 0 {
							for j := 0; j < cfg.keys; j++ {
								c.Delete(j)
							}
						} else {
							lo := rr.intn(cfg.keys)
							for j := lo; j < lo+40 && j < cfg.keys; j++ {
								c.Delete(j)
							}
						}
					}
				}
			}(g)
		}
		wg.Wait()
		c2 := newCache(cacheSpec{Flavor: cfg.kind, Ctor: "New", OptMask: 1 | 2, DefExp: time.Hour, Interval: time.Millisecond, NKeys: jitterKeys})
		shrinkJitter(cfg, func() {
			for k := 0; k < jitterKeys; k++ {
				c2.Set(k, next(k), time.Hour)
			}
		}, func(k int) { c2.Set(k, next(k), time.Hour) }, c2.Delete, c2.Count, seeds)
		if st, ok := c2.Stats(); ok {
			res.count("growths", st.TotalGrowths)
			res.count("shrinks", st.TotalShrinks)
		}
		if st, ok := c.Stats(); ok {
			res.count("growths", st.TotalGrowths)
			res.count("shrinks", st.TotalShrinks)
		}
		runtime.KeepAlive(c)
	}
	res.count("ops", int64(perG*cfg.goroutines))
	res.count("goroutines:"+fmt.Sprint(cfg.goroutines), 1)
}
