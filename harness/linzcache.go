package main

import (
	"bytes"
	"fmt"
	"runtime"
	"sort"
	"strconv"
	"sync"
	"sync/atomic"
	"time"

	cache "github.com/fufuok/cache"
	"github.com/fufuok/cache/zzverif/vshim"
)

func init() {
	engines["linzcache"] = runLinzCache
}

func goid() int64 {
	var buf [64]byte
	n := runtime.Stack(buf[:], false)
	b := buf[:n]
	b = b[len("goroutine "):]
	i := bytes.IndexByte(b, ' ')
	id, _ := strconv.ParseInt(string(b[:i]), 10, 64)
	return id
}

// ledger of evicted-callback invocations
type ledgerEntry struct {
	K    int
	V    any
	T    int64 // ticket when the callback started
	TEnd int64 // ticket when it returned
	Gid  int64
	CbID int
}

type ledger struct {
	mu      sync.Mutex
	entries []ledgerEntry
	reenter func(k int, v any) // optional re-entrant action
}

func (l *ledger) cb(id int) func(k int, v any) {
	return func(k int, v any) {
		t := tick()
		if l.reenter != nil {
			l.reenter(k, v)
		}
		e := ledgerEntry{K: k, V: v, T: t, Gid: goid(), CbID: id}
		e.TEnd = tick()
		l.mu.Lock()
		l.entries = append(l.entries, e)
		l.mu.Unlock()
	}
}

type cacheRound struct {
	spec    cacheSpec
	family  string
	workers int
	phases  int
	progs   [][][]wop // [phase][worker][]
	advance []int64   // clock advance before each phase
	hot     []int
	fillLo  int
	fillHi  int
	fillers int
	level   int
	focus   vshim.Kind
	procs   int
	polling bool
	whole   bool
	janitor bool
	withCb  bool
	defExp  time.Duration
	closed  bool // C06 closed conservation scenario
}

func (rd *cacheRound) desc() string {
	return fmt.Sprintf("%s %s workers=%d phases=%d adv=%v hot=%v fill=[%d,%d) fillers=%d level=%d focus=%d procs=%d polling=%v whole=%v janitor=%v cb=%v def=%d",
		rd.family, rd.spec.Flavor, rd.workers, rd.phases, rd.advance, rd.hot, rd.fillLo, rd.fillHi, rd.fillers, rd.level, rd.focus, rd.procs, rd.polling, rd.whole, rd.janitor, rd.withCb, rd.defExp)
}

var cacheWriteKinds = []uint8{cSet, cSet, cGetOrSet, cGetAndSet, cGetAndRefresh, cGetOrCompute, cCompute, cCompute}
var cacheReadKinds = []uint8{cGet, cGetWithExpiration, cGetWithTTL}
var cacheRemoveKinds = []uint8{cGetAndDelete, cDelete, cDeleteExpired, cDeleteExpired}

func genTTL(r rng) time.Duration {
	switch r.intn(8) {
	case 0:
		return cache.NoExpiration
	case 1:
		return cache.DefaultExpiration
	case 2:
		return time.Hour
	case 3:
		return 0
	default:
		return time.Duration(r.between(1, 40))
	}
}

func genCacheProg(r rng, n int, keys []int, pClear, pRead, pRemove float64) []wop {
	p := make([]wop, 0, n)
	for i := 0; i < n; i++ {
		k := pick(r, keys)
		switch {
		case r.chance(pClear):
			p = append(p, wop{kind: cClear, rec: true})
		case r.chance(pRead):
			p = append(p, wop{kind: pick(r, cacheReadKinds), k: k, rec: true})
		case r.chance(pRemove):
			p = append(p, wop{kind: pick(r, cacheRemoveKinds), k: k, rec: true})
		default:
			w := wop{kind: pick(r, cacheWriteKinds), k: k, rec: true, d: genTTL(r)}
			if w.kind == cCompute {
				w.fn = uint8(r.intn(3))
			}
			w.v = nextVal(k)
			p = append(p, w)
		}
	}
	return p
}

func expOf(d, def time.Duration, now int64) int64 {
	if d == cache.DefaultExpiration {
		d = def
	}
	if d > 0 {
		return now + int64(d)
	}
	return 0
}

func execCacheOp(c cacheAPI, w *wop, client int, now int64, def time.Duration) *hev {
	h := &hev{Client: client, Kind: w.kind, K: w.k, V: w.v, Fn: w.fn, Zero: c.Zero(), Now: now}
	h.E = expOf(w.d, def, now)
	h.Call = tick()
	switch w.kind {
	case cSet:
		c.Set(w.k, w.v, w.d)
	case cGet:
		h.OutV, h.OutOK = c.Get(w.k)
	case cGetWithExpiration:
		var t time.Time
		h.OutV, t, h.OutOK = c.GetWithExpiration(w.k)
		if h.OutOK && !t.IsZero() {
			h.OutE = t.UnixNano()
		}
	case cGetWithTTL:
		var d time.Duration
		h.OutV, d, h.OutOK = c.GetWithTTL(w.k)
		if h.OutOK && d != cache.NoExpiration {
			h.OutE = now + int64(d)
		}
	case cGetOrSet:
		h.OutV, h.OutOK = c.GetOrSet(w.k, w.v, w.d)
	case cGetAndSet:
		h.OutV, h.OutOK = c.GetAndSet(w.k, w.v, w.d)
	case cGetAndRefresh:
		h.OutV, h.OutOK = c.GetAndRefresh(w.k, w.d)
	case cGetOrCompute:
		h.OutV, h.OutOK = c.GetOrCompute(w.k, func() any { h.Calls++; return w.v }, w.d)
	case cCompute:
		h.OutV, h.OutOK = c.Compute(w.k, func(old any, loaded bool) (any, bool) {
			h.Calls++
			h.Old, h.Loaded = old, loaded
			switch w.fn {
			case fnDel:
				return w.v, true
			case fnCond:
				return w.v, loaded
			}
			return w.v, false
		}, w.d)
	case cGetAndDelete:
		h.OutV, h.OutOK = c.GetAndDelete(w.k)
	case cDelete:
		c.Delete(w.k)
	case cDeleteExpired:
		c.DeleteExpired()
	case cClear:
		c.Clear()
	}
	h.Ret = tick()
	vshim.Progress()
	return h
}

type cacheRoundOut struct {
	hist      []*hev
	led       []ledgerEntry
	gids      []int64 // worker goroutine ids per phase*workers
	growths   int64
	shrinks   int64
	condWaits uint64
	final     int64 // ticket at which everything was quiescent
	janTicks  int64
	count     int
}

func runCacheRound(rd *cacheRound) (cacheAPI, cacheRoundOut) {
	var out cacheRoundOut
	vshim.SetVirtual(true)
	vshim.SetVNow(epoch)
	vshim.ResetTickers()
	led := &ledger{}
	sp := rd.spec
	sp.NKeys = 4096
	if rd.withCb {
		sp.Callback = led.cb(1)
	}
	c := newCache(sp)
	var tk *vshim.FakeTicker
	if rd.janitor {
		// the janitor goroutine creates its ticker asynchronously
		for i := 0; i < 1<<20 && tk == nil; i++ {
			if tks := armedSources(); len(tks) > 0 {
				tk = tks[len(tks)-1]
			} else {
				runtime.Gosched()
			}
		}
	}
	now := epoch
	cw0 := vshim.CondWaits()
	mode := vshim.MCount | vshim.MBudget
	if rd.level > 0 {
		mode |= vshim.MPerturb
	}
	if rd.polling {
		mode |= vshim.MPoll
	}
	vshim.SetPerturb(rd.level, rd.focus)
	old := runtime.GOMAXPROCS(rd.procs)
	for ph := 0; ph < rd.phases; ph++ {
		now += rd.advance[ph]
		vshim.SetVNow(now)
		vshim.ResetLive()
		vshim.SetMode(mode)
		hists := make([][]*hev, rd.workers)
		var wg, fwg sync.WaitGroup
		var stop int32
		start := make(chan struct{})
		for w := 0; w < rd.workers; w++ {
			wg.Add(1)
			go func(w int) {
				defer wg.Done()
				<-start
				prog := rd.progs[ph][w]
				hs := make([]*hev, 0, len(prog))
				for i := range prog {
					hs = append(hs, execCacheOp(c, &prog[i], w, now, rd.defExp))
				}
				hists[w] = hs
			}(w)
		}
		for f := 0; f < rd.fillers; f++ {
			fwg.Add(1)
			go func(f int) {
				defer fwg.Done()
				<-start
				for k := rd.fillLo + f; k < rd.fillHi && atomic.LoadInt32(&stop) == 0; k += rd.fillers {
					c.Set(k, nextVal(k), time.Duration(1+k%3)*20)
					vshim.Progress()
				}
				for k := rd.fillLo + f; k < rd.fillHi && atomic.LoadInt32(&stop) == 0; k += rd.fillers {
					c.Delete(k)
					vshim.Progress()
				}
			}(f)
		}
		if rd.janitor && tk != nil {
			fwg.Add(1)
			go func() {
				defer fwg.Done()
				<-start
				for atomic.LoadInt32(&stop) == 0 {
					if janFireNoWait() > 0 {
						atomic.AddInt64(&out.janTicks, 1)
					}
					runtime.Gosched()
				}
			}()
		}
		close(start)
		wg.Wait()
		atomic.StoreInt32(&stop, 1)
		fwg.Wait()
		if rd.janitor && tk != nil {
			// two further ticks: when the second one is accepted the pass triggered
			// by everything before has finished
			janTickFlush(1 << 20)
			janQuiesce(1 << 14) // callbacks may be delivered by a helper goroutine of the library
		}
		vshim.SetMode(0)
		for _, hs := range hists {
			out.hist = append(out.hist, hs...)
		}
	}
	runtime.GOMAXPROCS(old)
	out.condWaits = vshim.CondWaits() - cw0
	if st, ok := c.Stats(); ok {
		out.growths, out.shrinks = st.TotalGrowths, st.TotalShrinks
	}
	out.final = tick()
	for _, k := range rd.hot {
		out.hist = append(out.hist, execCacheOp(c, &wop{kind: cGetWithExpiration, k: k}, rd.workers, now, rd.defExp))
	}
	out.count = c.Count()
	led.mu.Lock()
	out.led = append(out.led, led.entries...)
	led.mu.Unlock()
	return c, out
}

func genCacheRound(r rng, prop string) *cacheRound {
	rd := &cacheRound{}
	rd.spec = cacheSpec{Flavor: pick(r, cacheFlavors), Ctor: "New", OptMask: 1 | 2 | 8}
	if prop == "C12" {
		rd.spec.Flavor = pick(r, cacheFlavors[:2]) // the twins: Cache and CacheOf[string,any]
	}
	rd.defExp = pick(r, []time.Duration{cache.NoExpiration, 0, 15, 30, time.Hour})
	rd.spec.DefExp = rd.defExp
	if rd.defExp < 1 {
		rd.defExp = cache.NoExpiration
	}
	rd.janitor = r.chance(0.4)
	if rd.janitor {
		rd.spec.Interval = time.Millisecond
	}
	rd.spec.MinCap = pick(r, []int{0, 0, 200})
	rd.withCb = r.chance(0.5) || prop == "C06"
	if rd.withCb {
		rd.spec.OptMask |= 4
	}
	rd.level = pick(r, []int{0, 1, 1, 2, 2, 3})
	rd.focus = vshim.NKinds
	if r.chance(0.5) {
		// mostly the kinds that open a window between two adjacent operations of one call
		rd.focus = pick(r, []vshim.Kind{vshim.KLoad, vshim.KLoad, vshim.KLoad, vshim.KStore, vshim.KAfterStore, vshim.KAfterCAS, vshim.KAfterUnlock,
			vshim.KLock, vshim.KCondWait, vshim.KBroadcast, vshim.KAdd, vshim.KCAS, vshim.Kind(r.intn(int(vshim.NKinds)))})
	}
	rd.procs = pick(r, []int{1, 2, 4, 16, 16})
	rd.polling = r.chance(0.5)
	rd.phases = r.between(2, 4)
	for p := 0; p < rd.phases; p++ {
		rd.advance = append(rd.advance, int64(r.between(0, 60)))
	}
	pClear := 0.0
	if r.chance(0.35) {
		pClear = 0.03
	}
	pRemove := 0.22
	if prop == "C06" {
		pRemove = 0.4
	}
	fam := r.weighted([]int{42, 22, 28, 8})
	nk := 0
	switch fam {
	case 0:
		rd.family = "small-whole"
		rd.whole = true
		rd.workers = r.between(2, 5)
		nk = r.between(1, 3)
		if p := r.between(1, 3); p < rd.phases {
			rd.phases = p
		}
		rd.advance = rd.advance[:rd.phases]
	case 1:
		rd.family = "hot-keys"
		rd.workers = r.between(2, 16)
		nk = r.between(1, 6)
	case 3: // read storm: overwrites of one or two live keys under a storm of lock-free readers
		rd.family = "read-storm"
		rd.workers = r.between(6, 16)
		nk = r.between(1, 2)
		rd.level, rd.focus, rd.procs = 0, vshim.NKinds, 16
		rd.phases = 1
		rd.advance = rd.advance[:1]
		rd.janitor = false
		rd.spec.Interval = 0
	default:
		rd.family = "resize-waves"
		rd.workers = r.between(2, 12)
		nk = r.between(2, 6)
		rd.fillers = r.between(1, 3)
		rd.fillLo, rd.fillHi = 100, 100+r.between(90, 600)
	}
	for k := 0; k < nk; k++ {
		rd.hot = append(rd.hot, k)
	}
	for p := 0; p < rd.phases; p++ {
		var ws [][]wop
		for w := 0; w < rd.workers; w++ {
			n := r.between(8, 30)
			if rd.whole {
				n = r.between(2, 6)
			}
			if rd.family == "read-storm" {
				var pr []wop
				for j := 0; j < r.between(30, 60); j++ {
					k := pick(r, rd.hot)
					if w%3 == 0 {
						pr = append(pr, wop{kind: pick(r, []uint8{cSet, cGetAndSet, cCompute}), k: k, v: nextVal(k), fn: fnSet, d: pick(r, []time.Duration{time.Hour, cache.NoExpiration, 30 * time.Minute}), rec: true})
					} else {
						pr = append(pr, wop{kind: pick(r, cacheReadKinds), k: k, rec: true})
					}
				}
				ws = append(ws, pr)
				continue
			}
			ws = append(ws, genCacheProg(r, n, rd.hot, pClear, 0.3, pRemove))
		}
		rd.progs = append(rd.progs, ws)
	}
	return rd
}

// checkLedger applies the C06 oracles that hold for every interleaving.
func checkLedger(rd *cacheRound, c cacheAPI, out *cacheRoundOut, report func(sig, msg string, extra map[string]any)) {
	// (a) each unique value at most once, under its own key
	seen := map[any]ledgerEntry{}
	for _, e := range out.led {
		if x, ok := e.V.(val); ok && x != (val{}) && int(x.K) != e.K {
			report("callback pairs a value with another key", fmt.Sprintf("callback (k%d,%s): the value was stored under k%d", e.K, fmtVal(e.V), x.K), nil)
		}
		if p, dup := seen[e.V]; dup {
			report("evicted callback fired twice for one stored value", fmt.Sprintf("value %s (k%d) reported at tickets %d and %d", fmtVal(e.V), e.K, p.T, e.T), nil)
		}
		seen[e.V] = e
	}
	// written values and the calls that wrote them
	writes := map[any]*hev{}
	for _, h := range out.hist {
		switch h.Kind {
		case cSet, cGetAndSet:
			writes[h.V] = h
		case cGetOrSet, cGetOrCompute:
			if !h.OutOK {
				writes[h.V] = h
			}
		case cCompute:
			if h.OutOK {
				writes[h.V] = h
			}
		}
	}
	for _, e := range out.led {
		w := writes[e.V]
		if w == nil {
			if x, ok := e.V.(val); ok && x.K >= 100 {
				continue // filler value
			}
			report("callback for a value that was never stored", fmt.Sprintf("callback (k%d,%s): no completed call stored this value", e.K, fmtVal(e.V)), nil)
			continue
		}
		if e.T < w.Call {
			report("callback for a value before it was stored", fmt.Sprintf("callback (k%d,%s) at ticket %d, stored by %s", e.K, fmtVal(e.V), e.T, w), nil)
		}
		// (c) no read invoked after the callback returned may return the value
		for _, h := range out.hist {
			if h.K == e.K && h.Call > e.TEnd && h.OutOK && h.OutV == e.V && h.V != e.V {
				report("value still retrievable after its evicted callback", fmt.Sprintf("callback (k%d,%s) returned at %d, later %s", e.K, fmtVal(e.V), e.TEnd, h), nil)
			}
		}
	}
	// (e) every GetAndDelete that reported loaded has exactly one ledger entry with its value, inside its call
	if rd.withCb {
		for _, h := range out.hist {
			if h.Kind != cGetAndDelete || !h.OutOK {
				continue
			}
			e, ok := seen[h.OutV]
			if !ok {
				report("GetAndDelete loaded without firing the callback", fmt.Sprintf("%s: no callback for the returned value", h), nil)
			} else if e.T < h.Call || e.TEnd > h.Ret {
				report("GetAndDelete callback outside the call", fmt.Sprintf("%s: callback ran at [%d,%d]", h, e.T, e.TEnd), nil)
			}
		}
	}
}

func runLinzCache(a *args, res *result) {
	res.Rule = "round = one cache (random flavor, default TTL, janitor on a fake ticker or not, evicted callback or not), 2-4 phases with the virtual clock frozen inside a phase and advanced between phases so that short-TTL entries become expired-uncleaned, 2-16 goroutines running PRNG programs of all Set*/Get*/GetOr*/GetAnd*/Compute/Delete/GetAndDelete/DeleteExpired/Clear over 1-6 keys, filler waves forcing resizes, random perturbation/GOMAXPROCS/polling; history checked with porcupine against the TTL model per key (+Clear/DeleteExpired in every partition) or unpartitioned (small family); callback ledger checked for at-most-once, provenance, no-read-after-eviction; non-trivial = at least one pair of overlapping calls from different goroutines on one key; distinct = hash of the ticket-ordered call/return sequence"
	vshim.SetLiveBudget(1 << 28)
	for i := int64(0); i < a.n; i++ {
		if !a.mine(i) {
			continue
		}
		r := newRng(a.seed, uint64(i)*8+5)
		if a.prop == "C06" && i%4 == 3 {
			closedScenario(r, res, i)
			continue
		}
		if i%64 == 21 && a.prop != "C06" && a.prop != "C09" {
			longKeyStorm(r, res, i, pick(r, []string{"Cache", "CacheOf[string,any]"}))
			continue
		}
		if i%12 == 5 {
			vshim.SetVirtual(true)
			vshim.SetVNow(epoch)
			sp := cacheSpec{Flavor: pick(r, cacheFlavors), Ctor: "New", OptMask: 1 | 2, DefExp: time.Hour, Interval: 0, NKeys: 20480}
			if a.prop == "C12" {
				sp.Flavor = pick(r, cacheFlavors[:2])
			}
			for rep := 0; rep < 8; rep++ {
				c := newCache(sp)
				ownStorm(r, res, i, sp.Flavor, c.Get, func(k int, v any) { c.Set(k, v, time.Hour) }, c.Delete)
			}
			continue
		}
		if i%16 == 7 {
			vshim.SetVirtual(true)
			vshim.SetVNow(epoch)
			sp := cacheSpec{Flavor: pick(r, cacheFlavors), Ctor: "New", OptMask: 1 | 2, DefExp: time.Hour, Interval: 0, NKeys: 4096}
			if a.prop == "C12" {
				sp.Flavor = pick(r, cacheFlavors[:2])
			}
			c := newCache(sp)
			stableStorm(r, res, i, sp.Flavor, c.Get, func(k int, v any) {
				if k%2 == 0 {
					c.SetForever(k, v)
				} else {
					c.Set(k, v, time.Hour)
				}
			}, c.Delete)
			continue
		}
		if (a.prop == "C09" && i%5 == 4) || (a.prop != "C09" && a.prop != "C06" && i%16 == 15) {
			defaultFlipRound(r, res, i)
			continue
		}
		rd := genCacheRound(r, a.prop)
		logCase("linzcache %s round %d: %s", a.prop, i, rd.desc())
		c, out := runCacheRound(rd)
		hs := out.hist
		res.Evaluations++
		res.count("ops_recorded", int64(len(hs)))
		res.count("family:"+rd.family, 1)
		res.count("growths", out.growths)
		res.count("shrinks", out.shrinks)
		res.count("cond_waits", int64(out.condWaits))
		res.count("janitor_ticks", out.janTicks)
		res.count("callbacks_observed", int64(len(out.led)))
		if out.growths+out.shrinks > 0 {
			res.count("rounds_with_resize", 1)
		}
		ov, fp := historyShape(hs)
		res.count("overlapping_same_key_pairs", int64(ov))
		// rounds in which DeleteExpired/janitor overlapped a write to a key
		ovDE := 0
		for _, h := range hs {
			if h.Kind == cDeleteExpired {
				for _, g := range hs {
					if g.Kind >= cSet && g.Kind <= cCompute && g.Kind != cGet && g.Call < h.Ret && h.Call < g.Ret {
						ovDE++
						break
					}
				}
			}
		}
		if ovDE > 0 || out.janTicks > 0 {
			res.count("rounds_deleteexpired_overlapping_writes", 1)
		}
		if ov > 0 {
			res.nontrivial(fp)
		}
		if res.Evaluations <= 2 {
			res.sample(map[string]any{"round": i, "desc": rd.desc(), "history_head": describe(hs)[:min(len(hs), 30)]})
		}
		caseInfo := func(extra map[string]any) map[string]any {
			m := map[string]any{"case_index": i, "desc": rd.desc(), "growths": out.growths}
			for k, v := range extra {
				m[k] = v
			}
			return m
		}
		if a.prop == "C06" {
			checkLedger(rd, c, &out, func(sig, msg string, extra map[string]any) {
				res.violate(violation{Class: "callback", Sig: sig, Msg: rd.spec.Flavor + ": " + msg, Case: caseInfo(extra)})
			})
			continue
		}
		for _, h := range hs {
			if s := provenance(h); s != "" {
				res.violate(violation{Class: "provenance", Sig: "value stored under another key is returned", Msg: s, Case: caseInfo(map[string]any{"call": h.String()})})
			}
		}
		selfBad := false
		for _, h := range hs {
			if s := selfCheck(h); s != "" {
				selfBad = true
				res.violate(violation{Class: "result", Sig: "cache " + s, Msg: rd.spec.Flavor + ": " + h.String(), Case: caseInfo(nil)})
			}
		}
		if selfBad {
			continue
		}
		var v linVerdict
		if rd.whole {
			v = checkWhole(hs, 20*time.Second)
		} else {
			v = checkPerKey(hs, 30*time.Second)
		}
		switch {
		case v.Unknown:
			res.inconclusive(fmt.Sprintf("porcupine timed out on round %d (%s)", i, rd.desc()))
		case !v.OK:
			sig, ctx := classifyIllegal(v.Partition, rd.whole)
			hasDE := false
			for _, h := range v.Partition {
				if h.Kind == cDeleteExpired {
					hasDE = true
				}
			}
			if hasDE || rd.janitor {
				sig += " (DeleteExpired/janitor in history)"
			}
			res.violate(violation{Class: "linearizability", Sig: sig,
				Msg:  fmt.Sprintf("%s: history of key k%d is not linearizable against the TTL model (%d calls)", rd.spec.Flavor, v.Key, len(v.Partition)),
				Case: caseInfo(map[string]any{"witness": ctx, "partition": v.History})})
		}
	}
	_ = sort.Ints
}

// closedScenario (C06, exactly-once conservation): N keys are stored once with a
// short TTL, the clock is advanced past every expiry, and then ONLY removers run
// (2-4 overlapping DeleteExpired callers, Delete / GetAndDelete on subsets, the
// janitor on its fake ticker) until the cache is empty. The ledger must then be
// exactly the N stored pairs, each once.
func closedScenario(r rng, res *result, idx int64) {
	vshim.SetVirtual(true)
	vshim.SetVNow(epoch)
	vshim.ResetTickers()
	led := &ledger{}
	n := r.between(5, 300)
	janitor := r.chance(0.5)
	sp := cacheSpec{Flavor: pick(r, cacheFlavors), Ctor: "New", OptMask: 1 | 2 | 4, DefExp: time.Hour, NKeys: 512, Callback: led.cb(1)}
	if janitor {
		sp.Interval = time.Millisecond
	}
	c := newCache(sp)
	var tk *vshim.FakeTicker
	if janitor {
		for i := 0; i < 1<<20 && tk == nil; i++ {
			if tks := armedSources(); len(tks) > 0 {
				tk = tks[len(tks)-1]
			} else {
				runtime.Gosched()
			}
		}
	}
	stored := map[int]any{}
	for k := 0; k < n; k++ {
		v := nextVal(k)
		c.Set(k, v, time.Duration(r.between(1, 20)))
		stored[k] = v
	}
	vshim.SetVNow(epoch + 1000)
	level := pick(r, []int{0, 1, 2, 2, 3})
	procs := pick(r, []int{1, 2, 4, 16})
	polling := r.chance(0.5)
	removers := r.between(2, 4)
	pointRemovers := r.between(0, 3)
	desc := fmt.Sprintf("closed %s n=%d removers=%d point-removers=%d janitor=%v level=%d procs=%d polling=%v", sp.Flavor, n, removers, pointRemovers, janitor, level, procs, polling)
	logCase("linzcache C06 round %d: %s", idx, desc)
	mode := vshim.MCount | vshim.MBudget
	if level > 0 {
		mode |= vshim.MPerturb
	}
	if polling {
		mode |= vshim.MPoll
	}
	vshim.SetPerturb(level, vshim.NKinds)
	old := runtime.GOMAXPROCS(procs)
	vshim.ResetLive()
	vshim.SetMode(mode)
	var wg sync.WaitGroup
	start := make(chan struct{})
	var loadedGAD int64
	for g := 0; g < removers; g++ {
		wg.Add(1)
		go func() {
			defer wg.Done()
			<-start
			c.DeleteExpired()
			vshim.Progress()
			c.DeleteExpired()
			vshim.Progress()
		}()
	}
	seeds := make([]uint64, pointRemovers)
	for i := range seeds {
		seeds[i] = r.Uint64()
	}
	for g := 0; g < pointRemovers; g++ {
		wg.Add(1)
		go func(g int) {
			defer wg.Done()
			rr := newRng(int64(seeds[g]), uint64(g))
			<-start
			for j := 0; j < n/2; j++ {
				k := rr.intn(n)
				if rr.intn(2) == 0 {
					c.Delete(k)
				} else if _, ok := c.GetAndDelete(k); ok {
					atomic.AddInt64(&loadedGAD, 1)
				}
				vshim.Progress()
			}
		}(g)
	}
	close(start)
	if tk != nil {
		janFireNoWait()
	}
	wg.Wait()
	if tk != nil {
		janTickFlush(1 << 20)
		janQuiesce(1 << 14) // callbacks may be delivered by a helper goroutine of the library
	}
	vshim.SetMode(0)
	runtime.GOMAXPROCS(old)
	c.DeleteExpired()
	res.Evaluations++
	res.count("family:closed-conservation", 1)
	fp := newFP()
	fp.addStr(desc)
	res.nontrivial(fp.sum())
	bad := func(sig, msg string) {
		res.violate(violation{Class: "callback", Sig: sig, Msg: sp.Flavor + ": " + msg, Case: map[string]any{"case_index": idx, "desc": desc}})
	}
	if cnt := c.Count(); cnt != 0 {
		bad("expired entries survive DeleteExpired in the closed scenario", fmt.Sprintf("Count()=%d after all removers and a final DeleteExpired", cnt))
	}
	if loadedGAD != 0 {
		bad("GetAndDelete reports an expired entry as loaded", fmt.Sprintf("%d GetAndDelete calls returned loaded=true on expired entries", loadedGAD))
	}
	led.mu.Lock()
	got := map[int]int{}
	for _, e := range led.entries {
		got[e.K]++
		if want, ok := stored[e.K]; !ok || want != e.V {
			bad("callback with a key/value pair that was never stored", fmt.Sprintf("(k%d,%s)", e.K, fmtVal(e.V)))
		}
	}
	nled := len(led.entries)
	led.mu.Unlock()
	res.count("callbacks_observed", int64(nled))
	for k := range stored {
		if got[k] != 1 {
			bad(fmt.Sprintf("removed entry reported %d times to the evicted callback (closed scenario)", got[k]), fmt.Sprintf("k%d: %d callbacks; %d entries stored, %d callbacks in total", k, got[k], n, nled))
			break
		}
	}
	runtime.KeepAlive(c)
}

// defaultFlipRound: SetDefaultExpiration flips the default between a positive
// value and a non-positive one while writers store with the DefaultExpiration
// sentinel on keys of their own and read the expiry back. Every entry must be
// armed with the old or the new default - i.e. expire at call time + D (clock
// frozen) or never; anything else, including an entry that is already gone,
// matches neither.
func defaultFlipRound(r rng, res *result, idx int64) {
	vshim.SetVirtual(true)
	vshim.SetVNow(epoch)
	d1 := pick(r, []time.Duration{time.Hour, time.Minute, 50 * time.Millisecond})
	d2 := pick(r, []time.Duration{cache.NoExpiration, 0, -1, cache.DefaultExpiration, cache.NoExpiration - 1})
	sp := cacheSpec{Flavor: pick(r, cacheFlavors), Ctor: "New", OptMask: 1 | 2, DefExp: d1, Interval: 0, NKeys: 256}
	c := newCache(sp)
	writers := r.between(2, 8)
	level := pick(r, []int{0, 1, 2, 3})
	procs := pick(r, []int{2, 4, 16})
	desc := fmt.Sprintf("default-flip %s d1=%d d2=%d writers=%d level=%d procs=%d", sp.Flavor, d1, d2, writers, level, procs)
	logCase("linzcache round %d: %s", idx, desc)
	mode := vshim.MCount | vshim.MBudget
	if level > 0 {
		mode |= vshim.MPerturb
	}
	vshim.SetPerturb(level, pick(r, []vshim.Kind{vshim.KLoad, vshim.KAfterStore, vshim.NKinds}))
	old := runtime.GOMAXPROCS(procs)
	vshim.ResetLive()
	vshim.SetMode(mode)
	var wg sync.WaitGroup
	var stop int32
	start := make(chan struct{})
	type finding struct{ sig, msg string }
	finds := make([][]finding, writers)
	var stores int64
	wg.Add(1)
	go func() {
		defer wg.Done()
		<-start
		for atomic.LoadInt32(&stop) == 0 {
			c.SetDefaultExpiration(d2)
			c.SetDefaultExpiration(d1)
		}
	}()
	var wwg sync.WaitGroup
	seeds := make([]uint64, writers)
	for i := range seeds {
		seeds[i] = r.Uint64()
	}
	for w := 0; w < writers; w++ {
		wwg.Add(1)
		go func(w int) {
			defer wwg.Done()
			rr := newRng(int64(seeds[w]), uint64(w))
			<-start
			for j := 0; j < 150; j++ {
				k := w*8 + rr.intn(8)
				v := nextVal(k)
				what := ""
				switch rr.intn(5) {
				case 0:
					what = "SetDefault"
					c.SetDefault(k, v)
				case 1:
					what = "Set(DefaultExpiration)"
					c.Set(k, v, cache.DefaultExpiration)
				case 2:
					what = "GetAndSet(DefaultExpiration)"
					c.GetAndSet(k, v, cache.DefaultExpiration)
				case 3:
					what = "Compute(DefaultExpiration)"
					c.Compute(k, func(any, bool) (any, bool) { return v, false }, cache.DefaultExpiration)
				default:
					what = "Set+GetAndRefresh(DefaultExpiration)"
					c.Set(k, v, time.Hour)
					c.GetAndRefresh(k, cache.DefaultExpiration)
				}
				atomic.AddInt64(&stores, 1)
				got, t, ok := c.GetWithExpiration(k)
				e := int64(0)
				if ok && !t.IsZero() {
					e = t.UnixNano()
				}
				if !ok || got != any(v) || (e != 0 && e != epoch+int64(d1)) {
					finds[w] = append(finds[w], finding{what + " under a concurrent SetDefaultExpiration arms an expiry that is neither the old nor the new default",
						fmt.Sprintf("%s(k%d): GetWithExpiration = (%s, e=%d rel. now, ok=%v); defaults in play: %d and %d", what, k, fmtVal(got), e-epoch, ok, d1, d2)})
				}
				vshim.Progress()
			}
		}(w)
	}
	close(start)
	wwg.Wait()
	atomic.StoreInt32(&stop, 1)
	wg.Wait()
	vshim.SetMode(0)
	runtime.GOMAXPROCS(old)
	res.Evaluations++
	res.count("family:default-flip", 1)
	res.count("stores_under_default_flip", stores)
	fp := newFP()
	fp.addStr(desc)
	res.nontrivial(fp.sum())
	for _, fs := range finds {
		for _, f := range fs {
			res.violate(violation{Class: "expiry", Sig: f.sig, Msg: sp.Flavor + ": " + f.msg, Case: map[string]any{"case_index": idx, "desc": desc}})
		}
	}
}
