package main

import (
	"fmt"
	"math"
	"strings"
	"sync/atomic"
	"time"

	cache "github.com/fufuok/cache"
)

// val is the value type used by the typed containers. K is the index of the key
// the value was written under (provenance), ID is unique per written value.
type val struct {
	K  int32
	ID int64
	S  int64 // checksum over K and ID: a value mixed from two writes does not verify
}

func valSum(k int32, id int64) int64 { return id*0x9E3779B1 ^ int64(k)<<40 ^ 0x5bd1e995 }

func mkVal(k int, id int64) val { return val{K: int32(k), ID: id, S: valSum(int32(k), id)} }

func (v val) ok() bool { return v == (val{}) || v.S == valSum(v.K, v.ID) }

// val2 carries the same information in another dynamic type (and layout): the
// any-valued containers store values of both types under one key, so that a
// reader which combines the type word of one write with the data word of
// another obtains something that does not verify.
type val2 struct {
	ID int64
	S  int64
	K  int32
}

func encAny(v any) any {
	if x, ok := v.(val); ok && x.ID&1 == 1 {
		return val2{ID: x.ID, S: x.S, K: x.K}
	}
	return v
}

func decAny(v any) any {
	if y, ok := v.(val2); ok {
		return val{K: y.K, ID: y.ID, S: y.S}
	}
	return v
}

// skey is a struct key type with padding and a string field.
type skey struct {
	A int8
	B int64
	C string
}

func mkString(i int) string {
	switch i {
	case 0:
		return "" // the empty string is a valid key (and a special case of the string hash)
	case 2:
		return "k\x00" // embedded NUL
	case 3, 4:
		// two 1 KiB keys that differ only in their last byte
		return longKeyPrefix + string(rune('a'+i))
	}
	return fmt.Sprintf("k%d", i)
}

var longKeyPrefix = strings.Repeat("0123456789abcdef", 64)

func mkInt(i int) int {
	switch i {
	case 0:
		return 0
	case 1:
		return -1
	case 2:
		return math.MinInt64
	}
	return i*7919 + 13
}

// mkAnyKey: interface-kinded key type; the dynamic types are mixed
func mkAnyKey(i int) any {
	switch i % 3 {
	case 0:
		return mkInt(i)
	case 1:
		return mkString(i)
	}
	return mkSkey(i)
}

func mkSkey(i int) skey { return skey{A: int8(i), B: int64(i) * 1000003, C: fmt.Sprintf("s%d", i/3)} }

// ---------------------------------------------------------------------------
// map-like containers

type mapAPI interface {
	Name() string
	Zero() any
	Load(k int) (any, bool)
	Store(k int, v any)
	LoadOrStore(k int, v any) (any, bool)
	LoadAndStore(k int, v any) (any, bool)
	LoadOrCompute(k int, fn func() any) (any, bool)
	Compute(k int, fn func(old any, loaded bool) (any, bool)) (any, bool)
	LoadAndDelete(k int) (any, bool)
	Delete(k int)
	Range(f func(k int, v any) bool)
	Clear()
	Size() int
	Raw() any
	BucketOf(k int) int
}

type keyspace[K comparable] struct {
	keys []K
	idx  map[K]int
}

func newKeyspace[K comparable](n int, mk func(int) K) *keyspace[K] {
	ks := &keyspace[K]{keys: make([]K, n), idx: make(map[K]int, n)}
	for i := 0; i < n; i++ {
		ks.keys[i] = mk(i)
		ks.idx[ks.keys[i]] = i
	}
	return ks
}

func (ks *keyspace[K]) index(k K) int {
	if i, ok := ks.idx[k]; ok {
		return i
	}
	return -1
}

// Map (string keys, interface{} values)
type mapAd struct {
	m  cache.Map
	ks *keyspace[string]
}

func (a *mapAd) Name() string       { return "Map" }
func (a *mapAd) Zero() any          { return nil }
func (a *mapAd) Raw() any           { return a.m }
func (a *mapAd) BucketOf(k int) int { return cache.VerifBucketIndex(a.m, a.ks.keys[k]) }
func (a *mapAd) Load(k int) (any, bool) {
	v, ok := a.m.Load(a.ks.keys[k])
	return decAny(v), ok
}
func (a *mapAd) Store(k int, v any) { a.m.Store(a.ks.keys[k], encAny(v)) }
func (a *mapAd) LoadOrStore(k int, v any) (any, bool) {
	r, ok := a.m.LoadOrStore(a.ks.keys[k], encAny(v))
	return decAny(r), ok
}
func (a *mapAd) LoadAndStore(k int, v any) (any, bool) {
	r, ok := a.m.LoadAndStore(a.ks.keys[k], encAny(v))
	return decAny(r), ok
}
func (a *mapAd) LoadOrCompute(k int, fn func() any) (any, bool) {
	r, ok := a.m.LoadOrCompute(a.ks.keys[k], func() interface{} { return encAny(fn()) })
	return decAny(r), ok
}
func (a *mapAd) Compute(k int, fn func(any, bool) (any, bool)) (any, bool) {
	r, ok := a.m.Compute(a.ks.keys[k], func(o interface{}, l bool) (interface{}, bool) {
		n, d := fn(decAny(o), l)
		return encAny(n), d
	})
	return decAny(r), ok
}
func (a *mapAd) LoadAndDelete(k int) (any, bool) {
	r, ok := a.m.LoadAndDelete(a.ks.keys[k])
	return decAny(r), ok
}
func (a *mapAd) Delete(k int) { a.m.Delete(a.ks.keys[k]) }
func (a *mapAd) Range(f func(int, any) bool) {
	a.m.Range(func(k string, v interface{}) bool { return f(a.ks.index(k), decAny(v)) })
}
func (a *mapAd) Clear()    { a.m.Clear() }
func (a *mapAd) Size() int { return a.m.Size() }

// MapOf[K,V]
type mapOfAd[K comparable, V any] struct {
	name string
	m    cache.MapOf[K, V]
	ks   *keyspace[K]
	in   func(any) V
	out  func(V) any
	zero any
}

func (a *mapOfAd[K, V]) Name() string           { return a.name }
func (a *mapOfAd[K, V]) Zero() any              { return a.zero }
func (a *mapOfAd[K, V]) Raw() any               { return a.m }
func (a *mapOfAd[K, V]) BucketOf(k int) int     { return cache.VerifBucketIndexOf[K, V](a.m, a.ks.keys[k]) }
func (a *mapOfAd[K, V]) Load(k int) (any, bool) { v, ok := a.m.Load(a.ks.keys[k]); return a.out(v), ok }
func (a *mapOfAd[K, V]) Store(k int, v any)     { a.m.Store(a.ks.keys[k], a.in(v)) }
func (a *mapOfAd[K, V]) LoadOrStore(k int, v any) (any, bool) {
	r, ok := a.m.LoadOrStore(a.ks.keys[k], a.in(v))
	return a.out(r), ok
}
func (a *mapOfAd[K, V]) LoadAndStore(k int, v any) (any, bool) {
	r, ok := a.m.LoadAndStore(a.ks.keys[k], a.in(v))
	return a.out(r), ok
}
func (a *mapOfAd[K, V]) LoadOrCompute(k int, fn func() any) (any, bool) {
	r, ok := a.m.LoadOrCompute(a.ks.keys[k], func() V { return a.in(fn()) })
	return a.out(r), ok
}
func (a *mapOfAd[K, V]) Compute(k int, fn func(any, bool) (any, bool)) (any, bool) {
	r, ok := a.m.Compute(a.ks.keys[k], func(o V, l bool) (V, bool) {
		n, d := fn(a.out(o), l)
		return a.in(n), d
	})
	return a.out(r), ok
}
func (a *mapOfAd[K, V]) LoadAndDelete(k int) (any, bool) {
	r, ok := a.m.LoadAndDelete(a.ks.keys[k])
	return a.out(r), ok
}
func (a *mapOfAd[K, V]) Delete(k int) { a.m.Delete(a.ks.keys[k]) }
func (a *mapOfAd[K, V]) Range(f func(int, any) bool) {
	a.m.Range(func(k K, v V) bool { return f(a.ks.index(k), a.out(v)) })
}
func (a *mapOfAd[K, V]) Clear()    { a.m.Clear() }
func (a *mapOfAd[K, V]) Size() int { return a.m.Size() }

func inVal(v any) val {
	if v == nil {
		return val{}
	}
	return v.(val)
}
func outVal(v val) any { return v }
func inAny(v any) any  { return encAny(v) }
func outAny(v any) any { return decAny(v) }

// mapSpec describes how to construct a map-like container.
type mapSpec struct {
	Flavor string // Map | MapOf[string,any] | MapOf[int,val] | MapOf[skey,val] | MapOf[string,val]
	Hint   int    // <0x7fffffff: presized with this hint; noHint: NewMap()/NewMapOf()
	Hasher string // "" default; const | mod2 | sameh1 | sameh2 | mix (MapOf only)
	NKeys  int
}

const noHint = 1 << 40

var mapFlavors = []string{"Map", "MapOf[string,any]", "MapOf[int,val]", "MapOf[skey,val]", "MapOf[string,val]"}
var hasherModes = []string{"const", "mod2", "sameh1", "sameh2", "mix"}

func mix64(x uint64) uint64 {
	x ^= x >> 33
	x *= 0xff51afd7ed558ccd
	x ^= x >> 33
	x *= 0xc4ceb9fe1a85ec53
	x ^= x >> 33
	return x
}

func mkHasher[K comparable](mode string, ks *keyspace[K]) func(K, uint64) uint64 {
	idx := func(k K) uint64 { return uint64(ks.index(k) + 1) }
	switch mode {
	case "const":
		return func(k K, seed uint64) uint64 { return 0x2a55 }
	case "mod2":
		return func(k K, seed uint64) uint64 { return (idx(k) % 2) * 0x10001 }
	case "sameh1": // same bucket, different 7-bit hash
		return func(k K, seed uint64) uint64 { return 5<<7 | idx(k)&0x7f }
	case "sameh2": // different buckets, same 7-bit hash
		return func(k K, seed uint64) uint64 { return mix64(idx(k)^seed)<<7 | 0x11 }
	default:
		return func(k K, seed uint64) uint64 { return mix64(idx(k) ^ seed) }
	}
}

func newMapOfAd[K comparable, V any](sp mapSpec, mk func(int) K, in func(any) V, out func(V) any, zero any) mapAPI {
	ks := newKeyspace(sp.NKeys, mk)
	a := &mapOfAd[K, V]{name: sp.Flavor, ks: ks, in: in, out: out, zero: zero}
	if sp.Hasher != "" {
		a.name += "/" + sp.Hasher
		h := sp.Hint
		if h == noHint {
			h = 0
		}
		a.m = cache.VerifNewMapOfWithHasher[K, V](mkHasher(sp.Hasher, ks), h)
	} else if sp.Hint == noHint {
		a.m = cache.NewMapOf[K, V]()
	} else {
		a.m = cache.NewMapOfPresized[K, V](sp.Hint)
	}
	return a
}

func newMap(sp mapSpec) mapAPI {
	switch sp.Flavor {
	case "Map":
		a := &mapAd{ks: newKeyspace(sp.NKeys, mkString)}
		if sp.Hint == noHint {
			a.m = cache.NewMap()
		} else {
			a.m = cache.NewMapPresized(sp.Hint)
		}
		return a
	case "MapOf[string,any]":
		return newMapOfAd[string, any](sp, mkString, inAny, outAny, nil)
	case "MapOf[string,val]":
		return newMapOfAd[string, val](sp, mkString, inVal, outVal, val{})
	case "MapOf[int,val]":
		return newMapOfAd[int, val](sp, mkInt, inVal, outVal, val{})
	case "MapOf[skey,val]":
		return newMapOfAd[skey, val](sp, mkSkey, inVal, outVal, val{})
	case "MapOf[int,*payload]":
		return newMapOfAd[int, *payload](sp, mkInt, inPayload, outPayload, nil)
	case "MapOf[string,*payload]":
		return newMapOfAd[string, *payload](sp, mkString, inPayload, outPayload, nil)
	case "MapOf[skey,*payload]":
		return newMapOfAd[skey, *payload](sp, mkSkey, inPayload, outPayload, nil)
	case "MapOf[any,*payload]":
		return newMapOfAd[any, *payload](sp, mkAnyKey, inPayload, outPayload, nil)
	}
	panic("unknown map flavor " + sp.Flavor)
}

func mapStats(m mapAPI) (cache.VerifMapStats, bool) { return cache.VerifStats(m.Raw()) }

// ---------------------------------------------------------------------------
// caches

type cacheAPI interface {
	Name() string
	Zero() any
	Set(k int, v any, d time.Duration)
	SetDefault(k int, v any)
	SetForever(k int, v any)
	Get(k int) (any, bool)
	GetWithExpiration(k int) (any, time.Time, bool)
	GetWithTTL(k int) (any, time.Duration, bool)
	GetOrSet(k int, v any, d time.Duration) (any, bool)
	GetAndSet(k int, v any, d time.Duration) (any, bool)
	GetAndRefresh(k int, d time.Duration) (any, bool)
	GetOrCompute(k int, fn func() any, d time.Duration) (any, bool)
	Compute(k int, fn func(old any, loaded bool) (any, bool), d time.Duration) (any, bool)
	GetAndDelete(k int) (any, bool)
	Delete(k int)
	DeleteExpired()
	Range(f func(k int, v any) bool)
	RangeNil()
	Items() map[int]any
	ItemsUnknown() int // number of keys in the last Items() outside the keyspace
	Clear()
	Count() int
	DefaultExpiration() time.Duration
	SetDefaultExpiration(d time.Duration)
	HasEvictedCallback() bool
	SetEvictedCallback(f func(k int, v any))
	Stats() (cache.VerifMapStats, bool)
}

type cacheSpec struct {
	Flavor   string // Cache | CacheOf[string,any] | CacheOf[int,val] | CacheOf[skey,val]
	Ctor     string // New | NewDefault | NewBare (New() without options)
	DefExp   time.Duration
	Interval time.Duration
	MinCap   int
	OptMask  int // New: which options are passed (1 exp, 2 interval, 4 callback, 8 mincap)
	Callback func(k int, v any)
	NKeys    int
	// options passed BEFORE the ones above and overridden by them (PreMask is a
	// subset of OptMask): the effective configuration is that of the later options
	PreMask     int
	PreDefExp   time.Duration
	PreInterval time.Duration
	PreMinCap   int
}

// preCallbackFired counts invocations of a callback option that a later option replaced.
var preCallbackFired int64

var cacheFlavors = []string{"Cache", "CacheOf[string,any]", "CacheOf[int,val]", "CacheOf[skey,val]"}

type cacheAd struct {
	c       cache.Cache
	ks      *keyspace[string]
	unknown int64
}

func (a *cacheAd) Name() string                      { return "Cache" }
func (a *cacheAd) Zero() any                         { return nil }
func (a *cacheAd) Set(k int, v any, d time.Duration) { a.c.Set(a.ks.keys[k], v, d) }
func (a *cacheAd) SetDefault(k int, v any)           { a.c.SetDefault(a.ks.keys[k], v) }
func (a *cacheAd) SetForever(k int, v any)           { a.c.SetForever(a.ks.keys[k], v) }
func (a *cacheAd) Get(k int) (any, bool)             { return a.c.Get(a.ks.keys[k]) }
func (a *cacheAd) GetWithExpiration(k int) (any, time.Time, bool) {
	return a.c.GetWithExpiration(a.ks.keys[k])
}
func (a *cacheAd) GetWithTTL(k int) (any, time.Duration, bool) { return a.c.GetWithTTL(a.ks.keys[k]) }
func (a *cacheAd) GetOrSet(k int, v any, d time.Duration) (any, bool) {
	return a.c.GetOrSet(a.ks.keys[k], v, d)
}
func (a *cacheAd) GetAndSet(k int, v any, d time.Duration) (any, bool) {
	return a.c.GetAndSet(a.ks.keys[k], v, d)
}
func (a *cacheAd) GetAndRefresh(k int, d time.Duration) (any, bool) {
	return a.c.GetAndRefresh(a.ks.keys[k], d)
}
func (a *cacheAd) GetOrCompute(k int, fn func() any, d time.Duration) (any, bool) {
	return a.c.GetOrCompute(a.ks.keys[k], func() interface{} { return fn() }, d)
}
func (a *cacheAd) Compute(k int, fn func(any, bool) (any, bool), d time.Duration) (any, bool) {
	return a.c.Compute(a.ks.keys[k], func(o interface{}, l bool) (interface{}, bool) { return fn(o, l) }, d)
}
func (a *cacheAd) GetAndDelete(k int) (any, bool) { return a.c.GetAndDelete(a.ks.keys[k]) }
func (a *cacheAd) Delete(k int)                   { a.c.Delete(a.ks.keys[k]) }
func (a *cacheAd) DeleteExpired()                 { a.c.DeleteExpired() }
func (a *cacheAd) Range(f func(int, any) bool) {
	a.c.Range(func(k string, v interface{}) bool { return f(a.ks.index(k), v) })
}
func (a *cacheAd) RangeNil() { a.c.Range(nil) }
func (a *cacheAd) Items() map[int]any {
	it := a.c.Items()
	r := make(map[int]any, len(it))
	unknown := int64(0)
	for k, v := range it {
		i := a.ks.index(k)
		if i < 0 {
			unknown++
			continue
		}
		r[i] = v
	}
	atomic.StoreInt64(&a.unknown, unknown)
	return r
}
func (a *cacheAd) ItemsUnknown() int                    { return int(atomic.LoadInt64(&a.unknown)) }
func (a *cacheAd) Clear()                               { a.c.Clear() }
func (a *cacheAd) Count() int                           { return a.c.Count() }
func (a *cacheAd) DefaultExpiration() time.Duration     { return a.c.DefaultExpiration() }
func (a *cacheAd) SetDefaultExpiration(d time.Duration) { a.c.SetDefaultExpiration(d) }
func (a *cacheAd) HasEvictedCallback() bool             { return a.c.EvictedCallback() != nil }
func (a *cacheAd) Stats() (cache.VerifMapStats, bool)   { return cache.VerifCacheStats(a.c) }
func (a *cacheAd) SetEvictedCallback(f func(int, any)) {
	if f == nil {
		a.c.SetEvictedCallback(nil)
		return
	}
	a.c.SetEvictedCallback(func(k string, v interface{}) { f(a.ks.index(k), v) })
}

type cacheOfAd[K comparable, V any] struct {
	name    string
	c       cache.CacheOf[K, V]
	ks      *keyspace[K]
	in      func(any) V
	out     func(V) any
	zero    any
	unknown int64
}

func (a *cacheOfAd[K, V]) Name() string                      { return a.name }
func (a *cacheOfAd[K, V]) Zero() any                         { return a.zero }
func (a *cacheOfAd[K, V]) Set(k int, v any, d time.Duration) { a.c.Set(a.ks.keys[k], a.in(v), d) }
func (a *cacheOfAd[K, V]) SetDefault(k int, v any)           { a.c.SetDefault(a.ks.keys[k], a.in(v)) }
func (a *cacheOfAd[K, V]) SetForever(k int, v any)           { a.c.SetForever(a.ks.keys[k], a.in(v)) }
func (a *cacheOfAd[K, V]) Get(k int) (any, bool) {
	v, ok := a.c.Get(a.ks.keys[k])
	return a.out(v), ok
}
func (a *cacheOfAd[K, V]) GetWithExpiration(k int) (any, time.Time, bool) {
	v, t, ok := a.c.GetWithExpiration(a.ks.keys[k])
	return a.out(v), t, ok
}
func (a *cacheOfAd[K, V]) GetWithTTL(k int) (any, time.Duration, bool) {
	v, t, ok := a.c.GetWithTTL(a.ks.keys[k])
	return a.out(v), t, ok
}
func (a *cacheOfAd[K, V]) GetOrSet(k int, v any, d time.Duration) (any, bool) {
	r, ok := a.c.GetOrSet(a.ks.keys[k], a.in(v), d)
	return a.out(r), ok
}
func (a *cacheOfAd[K, V]) GetAndSet(k int, v any, d time.Duration) (any, bool) {
	r, ok := a.c.GetAndSet(a.ks.keys[k], a.in(v), d)
	return a.out(r), ok
}
func (a *cacheOfAd[K, V]) GetAndRefresh(k int, d time.Duration) (any, bool) {
	r, ok := a.c.GetAndRefresh(a.ks.keys[k], d)
	return a.out(r), ok
}
func (a *cacheOfAd[K, V]) GetOrCompute(k int, fn func() any, d time.Duration) (any, bool) {
	r, ok := a.c.GetOrCompute(a.ks.keys[k], func() V { return a.in(fn()) }, d)
	return a.out(r), ok
}
func (a *cacheOfAd[K, V]) Compute(k int, fn func(any, bool) (any, bool), d time.Duration) (any, bool) {
	r, ok := a.c.Compute(a.ks.keys[k], func(o V, l bool) (V, bool) {
		n, del := fn(a.out(o), l)
		return a.in(n), del
	}, d)
	return a.out(r), ok
}
func (a *cacheOfAd[K, V]) GetAndDelete(k int) (any, bool) {
	r, ok := a.c.GetAndDelete(a.ks.keys[k])
	return a.out(r), ok
}
func (a *cacheOfAd[K, V]) Delete(k int)   { a.c.Delete(a.ks.keys[k]) }
func (a *cacheOfAd[K, V]) DeleteExpired() { a.c.DeleteExpired() }
func (a *cacheOfAd[K, V]) Range(f func(int, any) bool) {
	a.c.Range(func(k K, v V) bool { return f(a.ks.index(k), a.out(v)) })
}
func (a *cacheOfAd[K, V]) RangeNil() { a.c.Range(nil) }
func (a *cacheOfAd[K, V]) Items() map[int]any {
	it := a.c.Items()
	r := make(map[int]any, len(it))
	unknown := int64(0)
	for k, v := range it {
		i := a.ks.index(k)
		if i < 0 {
			unknown++
			continue
		}
		r[i] = a.out(v)
	}
	atomic.StoreInt64(&a.unknown, unknown)
	return r
}
func (a *cacheOfAd[K, V]) ItemsUnknown() int                    { return int(atomic.LoadInt64(&a.unknown)) }
func (a *cacheOfAd[K, V]) Clear()                               { a.c.Clear() }
func (a *cacheOfAd[K, V]) Count() int                           { return a.c.Count() }
func (a *cacheOfAd[K, V]) DefaultExpiration() time.Duration     { return a.c.DefaultExpiration() }
func (a *cacheOfAd[K, V]) SetDefaultExpiration(d time.Duration) { a.c.SetDefaultExpiration(d) }
func (a *cacheOfAd[K, V]) HasEvictedCallback() bool             { return a.c.EvictedCallback() != nil }
func (a *cacheOfAd[K, V]) Stats() (cache.VerifMapStats, bool) {
	return cache.VerifCacheOfStats[K, V](a.c)
}
func (a *cacheOfAd[K, V]) SetEvictedCallback(f func(int, any)) {
	if f == nil {
		a.c.SetEvictedCallback(nil)
		return
	}
	a.c.SetEvictedCallback(func(k K, v V) { f(a.ks.index(k), a.out(v)) })
}

func newCacheOfAd[K comparable, V any](sp cacheSpec, mk func(int) K, in func(any) V, out func(V) any, zero any) cacheAPI {
	ks := newKeyspace(sp.NKeys, mk)
	a := &cacheOfAd[K, V]{name: sp.Flavor, ks: ks, in: in, out: out, zero: zero}
	var cb cache.EvictedCallbackOf[K, V]
	if sp.Callback != nil {
		f := sp.Callback
		cb = func(k K, v V) { f(ks.index(k), out(v)) }
	}
	switch sp.Ctor {
	case "NewDefault":
		if cb != nil {
			a.c = cache.NewOfDefault[K, V](sp.DefExp, sp.Interval, cb)
		} else {
			a.c = cache.NewOfDefault[K, V](sp.DefExp, sp.Interval)
		}
	case "NewBare":
		a.c = cache.NewOf[K, V]()
	default:
		var opts []cache.OptionOf[K, V]
		if pm := sp.PreMask & sp.OptMask; pm != 0 {
			if pm&1 != 0 {
				opts = append(opts, cache.WithDefaultExpirationOf[K, V](sp.PreDefExp))
			}
			if pm&2 != 0 {
				opts = append(opts, cache.WithCleanupIntervalOf[K, V](sp.PreInterval))
			}
			if pm&4 != 0 {
				opts = append(opts, cache.WithEvictedCallbackOf[K, V](func(K, V) { atomic.AddInt64(&preCallbackFired, 1) }))
			}
			if pm&8 != 0 {
				opts = append(opts, cache.WithMinCapacityOf[K, V](sp.PreMinCap))
			}
		}
		if sp.OptMask&1 != 0 {
			opts = append(opts, cache.WithDefaultExpirationOf[K, V](sp.DefExp))
		}
		if sp.OptMask&2 != 0 {
			opts = append(opts, cache.WithCleanupIntervalOf[K, V](sp.Interval))
		}
		if sp.OptMask&4 != 0 {
			opts = append(opts, cache.WithEvictedCallbackOf[K, V](cb))
		}
		if sp.OptMask&8 != 0 {
			opts = append(opts, cache.WithMinCapacityOf[K, V](sp.MinCap))
		}
		a.c = cache.NewOf[K, V](opts...)
	}
	return a
}

func newCache(sp cacheSpec) cacheAPI {
	switch sp.Flavor {
	case "Cache":
		ks := newKeyspace(sp.NKeys, mkString)
		a := &cacheAd{ks: ks}
		var cb cache.EvictedCallback
		if sp.Callback != nil {
			f := sp.Callback
			cb = func(k string, v interface{}) { f(ks.index(k), v) }
		}
		switch sp.Ctor {
		case "NewDefault":
			if cb != nil {
				a.c = cache.NewDefault(sp.DefExp, sp.Interval, cb)
			} else {
				a.c = cache.NewDefault(sp.DefExp, sp.Interval)
			}
		case "NewBare":
			a.c = cache.New()
		default:
			var opts []cache.Option
			if pm := sp.PreMask & sp.OptMask; pm != 0 {
				if pm&1 != 0 {
					opts = append(opts, cache.WithDefaultExpiration(sp.PreDefExp))
				}
				if pm&2 != 0 {
					opts = append(opts, cache.WithCleanupInterval(sp.PreInterval))
				}
				if pm&4 != 0 {
					opts = append(opts, cache.WithEvictedCallback(func(string, interface{}) { atomic.AddInt64(&preCallbackFired, 1) }))
				}
				if pm&8 != 0 {
					opts = append(opts, cache.WithMinCapacity(sp.PreMinCap))
				}
			}
			if sp.OptMask&1 != 0 {
				opts = append(opts, cache.WithDefaultExpiration(sp.DefExp))
			}
			if sp.OptMask&2 != 0 {
				opts = append(opts, cache.WithCleanupInterval(sp.Interval))
			}
			if sp.OptMask&4 != 0 {
				opts = append(opts, cache.WithEvictedCallback(cb))
			}
			if sp.OptMask&8 != 0 {
				opts = append(opts, cache.WithMinCapacity(sp.MinCap))
			}
			a.c = cache.New(opts...)
		}
		return a
	case "CacheOf[string,any]":
		return newCacheOfAd[string, any](sp, mkString, inAny, outAny, nil)
	case "CacheOf[int,val]":
		return newCacheOfAd[int, val](sp, mkInt, inVal, outVal, val{})
	case "CacheOf[skey,val]":
		return newCacheOfAd[skey, val](sp, mkSkey, inVal, outVal, val{})
	case "CacheOf[int,*payload]":
		return newCacheOfAd[int, *payload](sp, mkInt, inPayload, outPayload, nil)
	}
	panic("unknown cache flavor " + sp.Flavor)
}

// effective configuration implied by a spec (what the documentation says)
func (sp cacheSpec) effective() (defExp, interval time.Duration, hasCb bool) {
	switch sp.Ctor {
	case "NewDefault":
		return sp.DefExp, sp.Interval, sp.Callback != nil
	case "NewBare":
		return cache.NoExpiration, cache.DefaultCleanupInterval, false
	default:
		defExp, interval = cache.NoExpiration, cache.DefaultCleanupInterval
		if sp.OptMask&1 != 0 {
			defExp = sp.DefExp
		}
		if sp.OptMask&2 != 0 {
			interval = sp.Interval
		}
		hasCb = sp.OptMask&4 != 0 && sp.Callback != nil
		return
	}
}

func cacheVerifLocked(raw any) int         { return cache.VerifLockedBuckets(raw) }
func cacheVerifStructure(raw any) []string { return cache.VerifStructure(raw) }

// payload is the value type of the race-detector workloads: initialised with
// plain stores right before being handed to the container, read with plain
// loads by whoever obtains it.
type payload struct {
	key  int
	seq  int64
	data [4]uint64
	sum  uint64
}

func inPayload(v any) *payload {
	if v == nil {
		return nil
	}
	return v.(*payload)
}

func outPayload(p *payload) any {
	if p == nil {
		return nil
	}
	return p
}
