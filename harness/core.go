package main

import (
	"encoding/json"
	"fmt"
	"hash/fnv"
	"math/rand/v2"
	"os"
	"sort"
	"sync"
	"time"
)

// violation is one refutation of a property, with a signature that names the
// failing input / call site / history shape (used for known-findings matching).
type violation struct {
	Prop  string `json:"prop"`
	Class string `json:"class"`
	Sig   string `json:"sig"`
	Msg   string `json:"msg"`
	Case  any    `json:"case,omitempty"`
}

type result struct {
	Engine       string           `json:"engine"`
	Prop         string           `json:"prop"`
	Seed         int64            `json:"seed"`
	Stripe       int              `json:"stripe"`
	Evaluations  int64            `json:"evaluations"`
	Fingerprints []uint64         `json:"fingerprints"` // distinct non-trivial case fingerprints
	Rule         string           `json:"rule"`
	Violations   []violation      `json:"violations"`
	NViolations  int64            `json:"nviolations"`
	Samples      []any            `json:"samples"`
	Counters     map[string]int64 `json:"counters"`
	Inconclusive []string         `json:"inconclusive"`
	Exhaustive   bool             `json:"exhaustive"`
	WallS        float64          `json:"wall_s"`
	Notes        []string         `json:"notes,omitempty"`

	mu  sync.Mutex
	fps map[uint64]struct{}
}

func newResult(engine, prop string, seed int64, stripe int) *result {
	return &result{Engine: engine, Prop: prop, Seed: seed, Stripe: stripe,
		Counters: map[string]int64{}, fps: map[uint64]struct{}{}}
}

const maxViolationsKept = 20
const maxSamples = 4

func (r *result) violate(v violation) {
	r.mu.Lock()
	defer r.mu.Unlock()
	r.NViolations++
	if v.Prop == "" {
		v.Prop = r.Prop
	}
	// keep the first few, but always keep one per distinct signature
	seen := false
	for _, o := range r.Violations {
		if o.Sig == v.Sig {
			seen = true
			break
		}
	}
	if len(r.Violations) < maxViolationsKept || (!seen && len(r.Violations) < 4*maxViolationsKept) {
		r.Violations = append(r.Violations, v)
	}
}

func (r *result) count(name string, d int64) {
	r.mu.Lock()
	r.Counters[name] += d
	r.mu.Unlock()
}

func (r *result) max(name string, v int64) {
	r.mu.Lock()
	if r.Counters[name] < v {
		r.Counters[name] = v
	}
	r.mu.Unlock()
}

func (r *result) nontrivial(fp uint64) {
	r.mu.Lock()
	r.fps[fp] = struct{}{}
	r.mu.Unlock()
}

func (r *result) sample(s any) {
	r.mu.Lock()
	if len(r.Samples) < maxSamples {
		r.Samples = append(r.Samples, s)
	}
	r.mu.Unlock()
}

func (r *result) inconclusive(s string) {
	r.mu.Lock()
	if len(r.Inconclusive) < 50 {
		r.Inconclusive = append(r.Inconclusive, s)
	}
	r.Counters["inconclusive"]++
	r.mu.Unlock()
}

func (r *result) write(path string, start time.Time) {
	r.mu.Lock()
	r.Fingerprints = make([]uint64, 0, len(r.fps))
	for fp := range r.fps {
		r.Fingerprints = append(r.Fingerprints, fp)
	}
	sort.Slice(r.Fingerprints, func(i, j int) bool { return r.Fingerprints[i] < r.Fingerprints[j] })
	// fingerprints are only needed for cross-stripe de-duplication; cap the list
	if len(r.Fingerprints) > 200000 {
		r.Counters["fingerprints_truncated"] = int64(len(r.Fingerprints))
		r.Fingerprints = r.Fingerprints[:200000]
	}
	r.WallS = time.Since(start).Seconds()
	if r.Violations == nil {
		r.Violations = []violation{}
	}
	if r.Samples == nil {
		r.Samples = []any{}
	}
	if r.Inconclusive == nil {
		r.Inconclusive = []string{}
	}
	b, err := json.Marshal(r)
	r.mu.Unlock()
	if err != nil {
		fmt.Fprintln(os.Stderr, "marshal result:", err)
		os.Exit(4)
	}
	tmp := path + ".tmp"
	if err := os.WriteFile(tmp, b, 0o644); err != nil {
		fmt.Fprintln(os.Stderr, err)
		os.Exit(4)
	}
	os.Rename(tmp, path)
}

// ---- PRNG ----

type rng struct{ *rand.Rand }

func newRng(seed int64, stream uint64) rng {
	return rng{rand.New(rand.NewPCG(uint64(seed)*0x9e3779b97f4a7c15+1, stream*0xbf58476d1ce4e5b9+7))}
}

func (r rng) intn(n int) int {
	if n <= 0 {
		return 0
	}
	return r.IntN(n)
}
func (r rng) between(lo, hi int) int { return lo + r.intn(hi-lo+1) }
func (r rng) chance(p float64) bool  { return r.Float64() < p }

func pick[T any](r rng, xs []T) T { return xs[r.intn(len(xs))] }

// weighted pick: returns index
func (r rng) weighted(w []int) int {
	t := 0
	for _, x := range w {
		t += x
	}
	n := r.intn(t)
	for i, x := range w {
		if n < x {
			return i
		}
		n -= x
	}
	return len(w) - 1
}

type hasher64 struct{ h uint64 }

func newFP() *hasher64 { return &hasher64{h: 1469598103934665603} }
func (f *hasher64) add(xs ...uint64) {
	for _, x := range xs {
		for i := 0; i < 8; i++ {
			f.h ^= (x >> (8 * i)) & 0xff
			f.h *= 1099511628211
		}
	}
}
func (f *hasher64) addStr(s string) {
	h := fnv.New64a()
	h.Write([]byte(s))
	f.add(h.Sum64())
}
func (f *hasher64) sum() uint64 { return f.h }

// case log: the description of the case about to run is written to disk before
// it is executed, so that a crash of the process still leaves the input.
var caseLog *os.File

func logCase(format string, a ...any) {
	if caseLog == nil {
		return
	}
	caseLog.Truncate(0)
	caseLog.Seek(0, 0)
	fmt.Fprintf(caseLog, format+"\n", a...)
}

func fmtVal(v any) string {
	switch x := v.(type) {
	case nil:
		return "nil"
	case val:
		if x == (val{}) {
			return "zero"
		}
		if !x.ok() {
			return fmt.Sprintf("TORN{k%d id%d s%d}", x.K, x.ID, x.S)
		}
		return fmt.Sprintf("v%d@k%d", x.ID, x.K)
	case val2:
		return fmt.Sprintf("val2?{%d,%d,%d}", x.ID, x.S, x.K)
	default:
		return fmt.Sprintf("%v", v)
	}
}
