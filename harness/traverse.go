package main

import (
	"fmt"
	"runtime"
	"sync"
	"time"

	"github.com/fufuok/cache/zzverif/vshim"
)

func init() { engines["traverse"] = runTraverse }

// C07: Range/Items visit each qualifying entry once, never a phantom or
// expired one. Two monitors (quiescent exactness lives in seq / seqmap):
//   re-entrant: the visitor itself inserts, updates and deletes keys;
//   concurrent: stable keys (never touched during the phase) and volatile keys,
//   each volatile key owned by ONE writer goroutine so that its version order is
//   that writer's program order and version i is current somewhere inside
//   [call_i, ret_{i+1}].

type version struct {
	v       any // nil = deleted
	deleted bool
	call    int64
	ret     int64
}

type travRec struct {
	call, ret int64
	visits    []kvp
	items     bool
}

// a generic view used for maps and caches
type travTarget struct {
	name  string
	store func(k int, v any)
	del   func(k int)
	rng   func(f func(k int, v any) bool)
	items func() (map[int]any, int) // caches only
	clear func()
	grow  func() int64
}

func runTraverse(a *args, res *result) {
	res.Rule = "round = one container with stable keys (never touched during the phase), volatile keys each owned by one writer goroutine (store/delete/re-insert churn incl. bucket-mate slot reuse under colliding hashers, fill/drain waves that grow and shrink the table) and, for caches, entries that expired before the phase; 1-3 goroutines traverse with Range/Items meanwhile, or (re-entrant family) a single goroutine's visitor inserts/updates/deletes keys itself; oracle: no key twice, stable keys exactly once with their exact value, volatile keys at most once with a version whose currency window intersects the traversal, expired/unknown keys never; non-trivial = a traversal overlapped writes; distinct = hash of configuration and visit counts"
	vshim.SetVirtual(true)
	vshim.SetLiveBudget(1 << 28)
	for i := int64(0); i < a.n; i++ {
		if !a.mine(i) {
			continue
		}
		r := newRng(a.seed, uint64(i)*8+5)
		if i%3 == 0 {
			reentrantTraverse(r, res, i)
		} else {
			concurrentTraverse(r, res, i)
		}
		res.Evaluations++
	}
}

func newTravTarget(r rng, nkeys int) (*travTarget, bool, cacheAPI) {
	if r.chance(0.5) {
		sp := mapSpec{Flavor: pick(r, mapFlavors), Hint: pick(r, []int{noHint, 0, 300}), NKeys: nkeys}
		if sp.Flavor != "Map" && r.chance(0.6) {
			sp.Hasher = pick(r, hasherModes)
		}
		m := newMap(sp)
		return &travTarget{name: specName(sp), store: m.Store, del: m.Delete, rng: m.Range, clear: m.Clear,
			grow: func() int64 { st, _ := mapStats(m); return st.TotalGrowths + st.TotalShrinks }}, false, nil
	}
	sp := cacheSpec{Flavor: pick(r, cacheFlavors), Ctor: "New", OptMask: 1 | 2, DefExp: time.Hour, Interval: 0, NKeys: nkeys}
	c := newCache(sp)
	return &travTarget{name: sp.Flavor, store: func(k int, v any) { c.Set(k, v, time.Hour) }, del: c.Delete, rng: c.Range, clear: c.Clear,
		items: func() (map[int]any, int) { it := c.Items(); return it, c.ItemsUnknown() },
		grow:  func() int64 { st, _ := c.Stats(); return st.TotalGrowths + st.TotalShrinks }}, true, c
}

func concurrentTraverse(r rng, res *result, idx int64) {
	const nkeys = 8192
	vshim.SetVNow(epoch)
	t, isCache, c := newTravTarget(r, nkeys)
	nstable := pick(r, []int{3, 20, 64, 200})
	stable := map[int]any{}
	for k := 0; k < nstable; k++ {
		v := nextVal(k)
		t.store(k, v)
		stable[k] = v
	}
	expired := map[int]bool{}
	if isCache {
		for k := 3000; k < 3000+r.between(1, 30); k++ {
			c.Set(k, nextVal(k), 5)
			expired[k] = true
		}
		vshim.SetVNow(epoch + 100)
	}
	writers := r.between(1, 6)
	travs := r.between(1, 3)
	withClear := r.chance(0.15)
	level := pick(r, []int{0, 1, 2, 2, 3})
	procs := pick(r, []int{1, 2, 4, 16, 16})
	polling := r.chance(0.5)
	perW := pick(r, []int{4, 12, 40, 150}) // owned keys per writer
	opsW := r.between(40, 400)
	desc := fmt.Sprintf("concurrent %s stable=%d writers=%d x%d keys x%d ops travs=%d clear=%v level=%d procs=%d polling=%v", t.name, nstable, writers, perW, opsW, travs, withClear, level, procs, polling)
	logCase("traverse round %d: %s", idx, desc)
	hist := make([]map[int][]version, writers)
	recs := make([][]travRec, travs)
	g0 := t.grow()
	mode := vshim.MCount | vshim.MBudget
	if level > 0 {
		mode |= vshim.MPerturb
	}
	if polling {
		mode |= vshim.MPoll
	}
	focus := vshim.NKinds
	if r.chance(0.4) {
		focus = pick(r, []vshim.Kind{vshim.KAfterUnlock, vshim.KUnlock, vshim.KLock, vshim.KAfterStore})
	}
	vshim.SetPerturb(level, focus)
	old := runtime.GOMAXPROCS(procs)
	vshim.ResetLive()
	vshim.SetMode(mode)
	var wg, twg sync.WaitGroup
	start := make(chan struct{})
	done := make(chan struct{})
	seeds := make([]uint64, writers+travs)
	for j := range seeds {
		seeds[j] = r.Uint64()
	}
	for w := 0; w < writers; w++ {
		wg.Add(1)
		go func(w int) {
			defer wg.Done()
			rr := newRng(int64(seeds[w]), uint64(w))
			h := map[int][]version{}
			base := 500 + w*perW
			<-start
			for j := 0; j < opsW; j++ {
				k := base + rr.intn(perW)
				ver := version{}
				ver.call = tick()
				if rr.intn(3) == 0 {
					ver.deleted = true
					t.del(k)
				} else {
					ver.v = nextVal(k)
					t.store(k, ver.v)
				}
				ver.ret = tick()
				h[k] = append(h[k], ver)
				vshim.Progress()
				if withClear && w == 0 && rr.intn(60) == 0 {
					t.clear()
				}
			}
			hist[w] = h
		}(w)
	}
	for tr := 0; tr < travs; tr++ {
		twg.Add(1)
		go func(tr int) {
			defer twg.Done()
			rr := newRng(int64(seeds[writers+tr]), uint64(tr))
			<-start
			for n := 0; ; n++ {
				select {
				case <-done:
					if n > 0 {
						return
					}
				default:
				}
				rec := travRec{}
				rec.call = tick()
				if t.items != nil && rr.intn(3) == 0 {
					rec.items = true
					it, unknown := t.items()
					for k, v := range it {
						rec.visits = append(rec.visits, kvp{k, v})
					}
					for u := 0; u < unknown; u++ {
						rec.visits = append(rec.visits, kvp{-1, nil})
					}
				} else {
					t.rng(func(k int, v any) bool {
						rec.visits = append(rec.visits, kvp{k, v})
						return true
					})
				}
				rec.ret = tick()
				recs[tr] = append(recs[tr], rec)
				vshim.Progress()
				if n > 200 {
					return
				}
			}
		}(tr)
	}
	close(start)
	wg.Wait()
	close(done)
	twg.Wait()
	vshim.SetMode(0)
	runtime.GOMAXPROCS(old)
	resized := t.grow() - g0
	// merge version histories
	all := map[int][]version{}
	for _, h := range hist {
		for k, vs := range h {
			all[k] = vs
		}
	}
	endTicket := tick()
	bad := func(sig, msg string) {
		res.violate(violation{Class: "range", Sig: sig, Msg: t.name + ": " + msg, Case: map[string]any{"case_index": idx, "desc": desc, "resizes": resized}})
	}
	ntrav, overlapped := 0, 0
	for _, rs := range recs {
		for _, rec := range rs {
			ntrav++
			what := "Range"
			if rec.items {
				what = "Items"
			}
			seen := map[int]bool{}
			for _, kv := range rec.visits {
				k := kv.K
				if k < 0 {
					bad(what+" visits a key that was never stored", "unknown key")
					continue
				}
				if seen[k] {
					bad(what+" visits a key twice in one traversal", fmt.Sprintf("k%d visited twice in [%d,%d]", k, rec.call, rec.ret))
				}
				seen[k] = true
				if expired[k] {
					bad(what+" visits an entry that expired before the traversal began", fmt.Sprintf("k%d", k))
					continue
				}
				if want, ok := stable[k]; ok {
					if kv.V != want {
						bad(what+" visits a stable key with a wrong value", fmt.Sprintf("k%d=%s, stored %s", k, fmtVal(kv.V), fmtVal(want)))
					}
					continue
				}
				vs, ok := all[k]
				if !ok {
					bad(what+" visits a key that was never stored", fmt.Sprintf("k%d", k))
					continue
				}
				// the visited value must be a version whose currency window meets the traversal
				found := false
				for j, ver := range vs {
					if ver.deleted || ver.v != kv.V {
						continue
					}
					found = true
					until := endTicket
					if j+1 < len(vs) {
						until = vs[j+1].ret
					}
					if !(ver.call < rec.ret && until > rec.call) {
						bad(what+" visits a value that was not current at any moment of the traversal", fmt.Sprintf("k%d=%s current in [%d,%d], traversal [%d,%d]", k, fmtVal(kv.V), ver.call, until, rec.call, rec.ret))
					}
				}
				if !found {
					bad(what+" visits a value that was never stored under that key", fmt.Sprintf("k%d=%s", k, fmtVal(kv.V)))
				}
			}
			if !withClear {
				for k := range stable {
					if !seen[k] {
						bad(what+" misses a key that stayed present for the whole traversal", fmt.Sprintf("stable k%d not visited in traversal [%d,%d] (%d visits)", k, rec.call, rec.ret, len(rec.visits)))
						break
					}
				}
			}
			// did it overlap writes?
			for _, vs := range all {
				if len(vs) > 0 && vs[0].call < rec.ret && vs[len(vs)-1].ret > rec.call {
					overlapped++
					break
				}
			}
		}
	}
	res.count("traversals", int64(ntrav))
	res.count("traversals_overlapping_writes", int64(overlapped))
	res.count("resizes_during_rounds", resized)
	if resized > 0 {
		res.count("rounds_with_resize", 1)
	}
	fp := newFP()
	fp.addStr(desc)
	fp.add(uint64(ntrav), uint64(overlapped))
	if overlapped > 0 {
		res.nontrivial(fp.sum())
	}
	if res.Evaluations < 2 {
		res.sample(map[string]any{"round": idx, "desc": desc, "traversals": ntrav, "overlapping_writes": overlapped, "resizes": resized})
	}
}

func reentrantTraverse(r rng, res *result, idx int64) {
	const nkeys = 8192
	vshim.SetVNow(epoch)
	t, _, _ := newTravTarget(r, nkeys)
	n := pick(r, []int{1, 5, 30, 100, 400, 1500})
	held := map[int]map[any]bool{} // every value a key held since the traversal began
	cur := map[int]any{}
	for k := 0; k < n; k++ {
		v := nextVal(k)
		t.store(k, v)
		cur[k] = v
		held[k] = map[any]bool{v: true}
	}
	touched := map[int]bool{}
	desc := fmt.Sprintf("re-entrant %s keys=%d", t.name, n)
	logCase("traverse round %d: %s", idx, desc)
	bad := func(sig, msg string) {
		res.violate(violation{Class: "range", Sig: sig, Msg: t.name + ": " + msg, Case: map[string]any{"case_index": idx, "desc": desc}})
	}
	vshim.SetMode(vshim.MGlobal | vshim.MPoll | vshim.MCount)
	armBudget()
	seen := map[int]bool{}
	visits, muts := 0, 0
	set := func(k int) {
		v := nextVal(k)
		t.store(k, v)
		cur[k] = v
		if held[k] == nil {
			held[k] = map[any]bool{}
		}
		held[k][v] = true
		touched[k] = true
		muts++
	}
	gone := map[int]bool{} // deleted at some point during the traversal (possibly re-inserted)
	del := func(k int) {
		t.del(k)
		delete(cur, k)
		touched[k] = true
		gone[k] = true
		muts++
	}
	pMut := pick(r, []float64{0.05, 0.3, 0.8})
	t.rng(func(k int, v any) bool {
		armBudget()
		visits++
		switch {
		case k < 0:
			bad("Range visits a key that was never stored", "unknown key")
		case seen[k]:
			bad("Range visits a key twice in one traversal", fmt.Sprintf("k%d (visitor mutates the container)", k))
		case !held[k][v]:
			bad("Range visits a value the key never held during the traversal", fmt.Sprintf("k%d=%s", k, fmtVal(v)))
		}
		seen[k] = true
		if visits%97 == 5 {
			// nested traversal from inside the visitor: nobody else is writing, so it must
			// see exactly the current contents
			inner := map[int]any{}
			dup := false
			t.rng(func(k2 int, v2 any) bool {
				if _, d := inner[k2]; d {
					dup = true
				}
				inner[k2] = v2
				return true
			})
			if dup || !sameItems(inner, cur) {
				bad("nested Range (from inside a visitor) does not see exactly the current contents", fmt.Sprintf("nested Range saw %d keys (dup=%v), container holds %d", len(inner), dup, len(cur)))
			}
			armBudget()
		}
		if r.chance(pMut) {
			switch r.intn(7) {
			case 0:
				set(k) // update the key being visited
			case 1:
				del(k)
			case 2:
				set(r.intn(n)) // update some other key, visited or not
			case 3:
				del(r.intn(n))
			case 4:
				set(n + r.intn(600)) // insert a new key
			case 5:
				// delete and re-insert churn in one go (slot reuse)
				a, b := r.intn(n), r.intn(n)
				del(a)
				set(n + 700 + r.intn(300))
				set(a)
				del(b)
			default:
				for j := 0; j < 40; j++ { // burst: forces a grow mid-traversal
					set(n + 1100 + r.intn(1500))
				}
			}
		}
		return visits < 20000
	})
	vshim.SetStepBudget(0)
	vshim.SetMode(0)
	for k := 0; k < n; k++ {
		if !touched[k] && !seen[k] {
			bad("Range misses a key that stayed present and untouched for the whole traversal", fmt.Sprintf("k%d (visitor mutates other keys)", k))
			break
		}
		// a key that was only overwritten (never deleted) stayed present all along
		if !gone[k] && !seen[k] {
			bad("Range misses a key that stayed present for the whole traversal and was only overwritten meanwhile", fmt.Sprintf("k%d (overwritten by the visitor before its turn)", k))
			break
		}
	}
	res.count("reentrant_traversals", 1)
	res.count("reentrant_mutations", int64(muts))
	res.count("visits_checked", int64(visits))
	fp := newFP()
	fp.addStr(desc)
	fp.add(uint64(visits), uint64(muts))
	if muts > 0 {
		res.nontrivial(fp.sum())
	}
}
