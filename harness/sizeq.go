package main

import (
	"fmt"
	"runtime"
	"sync"
	"sync/atomic"
	"time"

	"github.com/fufuok/cache/zzverif/vshim"
)

func init() { engines["sizeq"] = runSizeQ }

// C08: Size/Count is exact whenever no modification is in flight. The
// concurrent workloads of the linearizability engines are re-run without the
// history check (so many more rounds fit) and at the quiescent point after
// every round Size()/Count() is compared with what Range visits, with what
// Load/Get finds over the whole key universe and with the walked table size.

func quiescentMap(m mapAPI, nkeys int) (size, ranged, loaded, walked int, dup bool, locked int, structure []string) {
	size = m.Size()
	seen := map[int]bool{}
	m.Range(func(k int, v any) bool {
		if seen[k] {
			dup = true
		}
		seen[k] = true
		ranged++
		return true
	})
	for k := 0; k < nkeys; k++ {
		if _, ok := m.Load(k); ok {
			loaded++
		}
	}
	walked = -1
	if st, ok := mapStats(m); ok {
		walked = st.Size
	}
	locked = cacheVerifLocked(m.Raw())
	structure = cacheVerifStructure(m.Raw())
	return
}

func runSizeQ(a *args, res *result) {
	res.Rule = "round = a concurrent phase of the C03/C04/C02 workloads (hot keys, slot churn, grow/shrink waves, Clear racing inserts; perturbation concentrated between slot update and counter update) followed by a quiescent point at which Size/Count, the number of pairs Range visits, the number of universe keys Load/Get finds and the walked table size are compared; caches additionally: Count >= live, Count == live right after DeleteExpired, Count == 0 right after Clear; non-trivial = a grow, shrink or Clear overlapped the writers of the round; distinct = hash of the round configuration and its outcome (sizes, growths, shrinks)"
	vshim.SetLiveBudget(1 << 28)
	sizeTwinsOnly = a.prop == "C12"
	for i := int64(0); i < a.n; i++ {
		if !a.mine(i) {
			continue
		}
		r := newRng(a.seed, uint64(i)*8+4)
		fp := newFP()
		if a.prop == "C13" {
			// termination only: writers dancing around the shrink threshold (shrinks started,
			// abandoned, requested again while one is running) must all return
			if i%2 == 0 {
				massDelete(r, res, i)
			} else {
				shrinkDance(r, res, i)
			}
			continue
		}
		if sizeTwinsOnly && i%4 <= 1 || !sizeTwinsOnly && i%16 == 13 {
			hotFill(r, res, i)
			continue
		}
		if sizeTwinsOnly && i%2 == 0 {
			parallelFill(r, res, i)
			continue
		}
		if sizeTwinsOnly {
			shrinkDance(r, res, i)
			continue
		}
		if i%16 == 5 {
			parallelFill(r, res, i)
			continue
		}
		if i%16 == 3 {
			massDelete(r, res, i)
			continue
		}
		if i%16 == 11 {
			shrinkDance(r, res, i)
			continue
		}
		if i%3 != 2 {
			flavors := []string{"Map", "MapOf[int,val]", "MapOf[string,val]", "MapOf[skey,val]"}
			rd, m := genMapRound(r, a.prop, flavors, hasherModes)
			// favour pauses right after a bucket is unlocked, i.e. between the slot
			// update and the striped counter update
			if r.chance(0.5) {
				rd.focus = pick(r, []vshim.Kind{vshim.KAfterUnlock, vshim.KAfterStore, vshim.KAdd})
				if rd.level == 0 {
					rd.level = 1
				}
			}
			logCase("sizeq %s round %d: %s", a.prop, i, rd.desc())
			hs, st := runMapRound(rd, m)
			res.Evaluations++
			res.count("ops", int64(len(hs)))
			size, ranged, loaded, walked, dup, locked, structure := quiescentMap(m, rd.spec.NKeys)
			res.count("quiescent_points", 1)
			res.max("max_size_seen", int64(size))
			clears := 0
			for _, h := range hs {
				if h.Kind == oClear {
					clears++
				}
			}
			fp.addStr(rd.family + specName(rd.spec))
			fp.add(uint64(size), uint64(st.growths), uint64(st.shrinks), uint64(clears), uint64(rd.workers))
			if st.growths+st.shrinks > 0 || clears > 0 {
				res.nontrivial(fp.sum())
				res.count("points_preceded_by_resize_or_clear", 1)
			}
			if res.Evaluations <= 2 {
				res.sample(map[string]any{"round": i, "desc": rd.desc(), "size": size, "ranged": ranged, "loaded": loaded, "walked": walked, "growths": st.growths, "shrinks": st.shrinks})
			}
			ci := map[string]any{"case_index": i, "desc": rd.desc(), "size": size, "ranged": ranged, "loaded": loaded, "walked": walked, "growths": st.growths, "shrinks": st.shrinks, "clears": clears}
			if size != ranged || size != loaded || (walked >= 0 && size != walked) {
				res.violate(violation{Class: "count", Sig: "Size differs from the number of entries present at a quiescent point",
					Msg: fmt.Sprintf("%s: Size()=%d, Range visits %d, Load finds %d keys, table holds %d", specName(rd.spec), size, ranged, loaded, walked), Case: ci})
			}
			if dup {
				res.violate(violation{Class: "count", Sig: "a key is stored twice at a quiescent point", Msg: specName(rd.spec) + ": Range visited a key twice", Case: ci})
			}
			for _, s := range structure {
				res.count("structure_anomalies", 1)
				if len(s) > 8 && s[:7] == "counter" {
					res.violate(violation{Class: "count", Sig: "striped counter differs from walked size", Msg: specName(rd.spec) + ": " + s, Case: ci})
				}
			}
			_ = locked
			// after a quiescent Clear the size is 0
			m.Clear()
			if n := m.Size(); n != 0 {
				res.violate(violation{Class: "count", Sig: "Size non-zero right after Clear", Msg: fmt.Sprintf("%s: Size()=%d after a quiescent Clear", specName(rd.spec), n), Case: ci})
			}
			continue
		}
		// caches (no janitor: the quiescent point must be quiescent)
		rd := genCacheRound(r, a.prop)
		rd.janitor = false
		rd.spec.Interval = 0
		logCase("sizeq %s round %d: %s", a.prop, i, rd.desc())
		c, out := runCacheRound(rd)
		res.Evaluations++
		res.count("ops", int64(len(out.hist)))
		res.count("quiescent_points", 1)
		count := c.Count()
		walked := -1
		if st, ok := c.Stats(); ok {
			walked = st.Size
		}
		ranged := 0
		c.Range(func(k int, v any) bool { ranged++; return true })
		fp.addStr(rd.family + rd.spec.Flavor)
		fp.add(uint64(count), uint64(out.growths), uint64(out.shrinks), uint64(rd.workers), uint64(ranged))
		if out.growths+out.shrinks > 0 {
			res.nontrivial(fp.sum())
			res.count("points_preceded_by_resize_or_clear", 1)
		}
		ci := map[string]any{"case_index": i, "desc": rd.desc(), "count": count, "walked": walked, "live_by_range": ranged}
		if walked >= 0 && count != walked {
			res.violate(violation{Class: "count", Sig: "Count differs from the number of entries physically present at a quiescent point",
				Msg: fmt.Sprintf("%s: Count()=%d, table holds %d", rd.spec.Flavor, count, walked), Case: ci})
		}
		if count < ranged {
			res.violate(violation{Class: "count", Sig: "Count under-reports the live entries", Msg: fmt.Sprintf("%s: Count()=%d but Range visits %d live entries", rd.spec.Flavor, count, ranged), Case: ci})
		}
		c.DeleteExpired()
		c2 := c.Count()
		r2 := 0
		c.Range(func(k int, v any) bool { r2++; return true })
		got := 0
		for k := 0; k < 4096; k++ {
			if _, ok := c.Get(k); ok {
				got++
			}
		}
		if c2 != r2 || c2 != got || r2 != ranged {
			res.violate(violation{Class: "count", Sig: "Count differs from the live entries right after DeleteExpired",
				Msg: fmt.Sprintf("%s: after DeleteExpired Count()=%d, Range visits %d (before: %d), Get finds %d", rd.spec.Flavor, c2, r2, ranged, got), Case: ci})
		}
		c.Clear()
		if n := c.Count(); n != 0 {
			res.violate(violation{Class: "count", Sig: "Count non-zero right after Clear", Msg: fmt.Sprintf("%s: Count()=%d after a quiescent Clear", rd.spec.Flavor, n), Case: ci})
		}
	}
}

type sizeTarget struct {
	name  string
	store func(k int, v any)
	del   func(k int)
	size  func() int
	rng   func(f func(k int, v any) bool)
}

// sizeTwinsOnly restricts the flavours to the twin pairs (C12: the twins must
// report equal counts, which at a quiescent point means each must be exact).
var sizeTwinsOnly bool

func newSizeTarget(r rng, hint int, nkeys int) *sizeTarget {
	if sizeTwinsOnly {
		if r.chance(0.6) {
			sp := mapSpec{Flavor: pick(r, []string{"Map", "MapOf[string,any]"}), Hint: hint, NKeys: nkeys}
			m := newMap(sp)
			return &sizeTarget{specName(sp), m.Store, m.Delete, m.Size, m.Range}
		}
		sp := cacheSpec{Flavor: pick(r, cacheFlavors[:2]), Ctor: "New", OptMask: 1 | 2 | 8, DefExp: time.Hour, Interval: 0, MinCap: hint, NKeys: nkeys}
		if hint == noHint {
			sp.OptMask = 1 | 2
		}
		c := newCache(sp)
		return &sizeTarget{sp.Flavor, func(k int, v any) { c.Set(k, v, time.Hour) }, c.Delete, c.Count, c.Range}
	}
	if r.chance(0.7) {
		sp := mapSpec{Flavor: pick(r, mapFlavors), Hint: hint, NKeys: nkeys}
		if sp.Flavor != "Map" && r.chance(0.3) {
			sp.Hasher = pick(r, []string{"mix", "sameh2"})
		}
		m := newMap(sp)
		return &sizeTarget{specName(sp), m.Store, m.Delete, m.Size, m.Range}
	}
	sp := cacheSpec{Flavor: pick(r, cacheFlavors), Ctor: "New", OptMask: 1 | 2 | 8, DefExp: time.Hour, Interval: 0, MinCap: hint, NKeys: nkeys}
	if hint == noHint {
		sp.OptMask = 1 | 2
	}
	c := newCache(sp)
	return &sizeTarget{sp.Flavor, func(k int, v any) { c.Set(k, v, time.Hour) }, c.Delete, c.Count, c.Range}
}

func (t *sizeTarget) ranged() int {
	n := 0
	t.rng(func(int, any) bool { n++; return true })
	return n
}

// parallelFill: a presized table (no resize will recount) is filled by 16
// goroutines with distinct keys at full speed; every insert path - empty slot and
// freshly appended overflow bucket - updates the striped counter concurrently
// with its neighbours. Then Size must equal the number of keys stored.
func parallelFill(r rng, res *result, idx int64) {
	vshim.SetVirtual(true)
	vshim.SetVNow(epoch)
	n := pick(r, []int{6000, 12000, 24000})
	t := newSizeTarget(r, pick(r, []int{n * 2 / 3, n, n + n/2}), n+1)
	logCase("sizeq round %d parallel-fill %s n=%d", idx, t.name, n)
	const G = 16
	old := runtime.GOMAXPROCS(16)
	vshim.SetPerturb(0, vshim.NKinds)
	vshim.SetMode(vshim.MCount | vshim.MBudget)
	vshim.ResetLive()
	var wg sync.WaitGroup
	start := make(chan struct{})
	for g := 0; g < G; g++ {
		wg.Add(1)
		go func(g int) {
			defer wg.Done()
			<-start
			for k := g; k < n; k += G {
				t.store(k, nextVal(k))
				vshim.Progress()
			}
			// and a few deletes of own keys
			for k := g; k < n; k += G * 7 {
				t.del(k)
				vshim.Progress()
			}
		}(g)
	}
	// observers: Size/Count is also called WHILE the writers run (an implementation that
	// caches or folds the striped counter on reads must still be exact afterwards)
	var pstop int32
	var pwg sync.WaitGroup
	for p := 0; p < 3; p++ {
		pwg.Add(1)
		go func() {
			defer pwg.Done()
			<-start
			for atomic.LoadInt32(&pstop) == 0 {
				t.size()
				runtime.Gosched()
			}
		}()
	}
	close(start)
	wg.Wait()
	atomic.StoreInt32(&pstop, 1)
	pwg.Wait()
	vshim.SetMode(0)
	runtime.GOMAXPROCS(old)
	want := 0
	for g := 0; g < G; g++ {
		for k := g; k < n; k += G {
			want++
		}
		for k := g; k < n; k += G * 7 {
			want--
		}
	}
	size, ranged := t.size(), t.ranged()
	res.Evaluations++
	res.count("quiescent_points", 1)
	res.count("family:parallel-fill", 1)
	res.count("ops", int64(n))
	fp := newFP()
	fp.addStr("parallel-fill" + t.name)
	fp.add(uint64(n), uint64(idx))
	res.nontrivial(fp.sum())
	if size != want || ranged != want {
		res.violate(violation{Class: "count", Sig: "Size differs from the number of entries present after parallel inserts into a presized table",
			Msg: fmt.Sprintf("%s: Size()=%d, Range visits %d, %d keys are present", t.name, size, ranged, want), Case: map[string]any{"case_index": idx, "n": n}})
	}
}

// hotFill: the keys that land in the first 64 buckets of a presized table (bucket
// index read from the table inspector) are inserted by 16 goroutines at once, so
// that nearly every insert appends an overflow bucket, and buckets that share a
// counter stripe are written concurrently. Size must then equal the number of
// keys stored. The table is replaced (Clear: new seed, no overflow buckets) and
// the pass repeated with another insert method.
func hotFill(r rng, res *result, idx int64) {
	vshim.SetVirtual(true)
	vshim.SetVNow(epoch)
	flv := mapFlavors
	if sizeTwinsOnly {
		flv = []string{"Map", "MapOf[string,any]"}
	}
	const universe = 60000
	sp := mapSpec{Flavor: pick(r, flv), Hint: 8000, NKeys: universe}
	m := newMap(sp)
	if m.BucketOf(0) < 0 { // built without the inspector
		parallelFill(r, res, idx)
		return
	}
	logCase("sizeq round %d hot-fill %s", idx, specName(sp))
	const G = 16
	old := runtime.GOMAXPROCS(16)
	defer runtime.GOMAXPROCS(old)
	vshim.SetPerturb(0, vshim.NKinds)
	passes, reported := 24, false
	for pass := 0; pass < passes; pass++ {
		var hot []int
		for k := 0; k < universe; k++ {
			if m.BucketOf(k) < 64 {
				hot = append(hot, k)
			}
		}
		how := pass % 4
		vshim.SetMode(vshim.MCount | vshim.MBudget)
		vshim.ResetLive()
		var wg sync.WaitGroup
		start := make(chan struct{})
		for g := 0; g < G; g++ {
			wg.Add(1)
			go func(g int) {
				defer wg.Done()
				<-start
				for i := g; i < len(hot); i += G {
					k := hot[i]
					v := nextVal(k)
					switch how {
					case 0:
						m.Store(k, v)
					case 1:
						m.LoadOrStore(k, v)
					case 2:
						m.Compute(k, func(any, bool) (any, bool) { return v, false })
					default:
						m.LoadOrCompute(k, func() any { return v })
					}
					vshim.Progress()
				}
			}(g)
		}
		var pstop int32
		var pwg sync.WaitGroup
		for p := 0; p < 2; p++ {
			pwg.Add(1)
			go func() {
				defer pwg.Done()
				<-start
				for atomic.LoadInt32(&pstop) == 0 {
					m.Size()
					runtime.Gosched()
				}
			}()
		}
		close(start)
		wg.Wait()
		atomic.StoreInt32(&pstop, 1)
		pwg.Wait()
		vshim.SetMode(0)
		size, ranged := m.Size(), 0
		m.Range(func(int, any) bool { ranged++; return true })
		res.count("quiescent_points", 1)
		res.count("ops", int64(len(hot)))
		if st, ok := mapStats(m); ok {
			res.max("hot-fill_max_bucket_entries", int64(st.MaxEntries))
			res.count("hot-fill_growths", st.TotalGrowths)
		}
		if (size != len(hot) || ranged != len(hot)) && !reported {
			reported = true
			res.violate(violation{Class: "count", Sig: "Size differs from the number of entries present after parallel inserts into full buckets",
				Msg: fmt.Sprintf("%s: Size()=%d, Range visits %d, %d keys were stored (16 goroutines, 64 hot buckets, insert method %d)", specName(sp), size, ranged, len(hot), how), Case: map[string]any{"case_index": idx, "pass": pass}})
		}
		m.Clear()
	}
	res.Evaluations++
	res.count("family:hot-fill", 1)
	fp := newFP()
	fp.addStr("hot-fill" + specName(sp))
	fp.add(uint64(idx))
	res.nontrivial(fp.sum())
}

// massDelete: a table that has grown is emptied down to a dozen keys (still above
// its shrink threshold), then one goroutine per remaining key deletes it at the same
// moment and stores a key of its own: several shrink requests arrive while one shrink
// is running, and the table that comes out is itself ready for another halving.
// Everybody must return, and Size must be exact afterwards.
func massDelete(r rng, res *result, idx int64) {
	vshim.SetVirtual(true)
	vshim.SetVNow(epoch)
	grow := pick(r, []int{120, 250, 500, 1000})
	last := pick(r, []int{8, 12, 24})
	procs := pick(r, []int{4, 16, 16})
	level := pick(r, []int{0, 0, 1, 2})
	rounds := 12
	for rd := 0; rd < rounds; rd++ {
		t := newSizeTarget(r, noHint, 4096)
		for k := 0; k < grow; k++ {
			t.store(k, nextVal(k))
		}
		for k := last; k < grow; k++ {
			t.del(k)
		}
		logCase("sizeq round %d mass-delete %s grow=%d last=%d round=%d level=%d procs=%d", idx, t.name, grow, last, rd, level, procs)
		old := runtime.GOMAXPROCS(procs)
		vshim.SetPerturb(level, pick(r, []vshim.Kind{vshim.KAfterCAS, vshim.KAfterUnlock, vshim.KCAS, vshim.KCondWait, vshim.NKinds}))
		mode := vshim.MCount | vshim.MBudget
		if level > 0 {
			mode |= vshim.MPerturb
		}
		vshim.SetMode(mode)
		vshim.ResetLive()
		var wg sync.WaitGroup
		start := make(chan struct{})
		for g := 0; g < last; g++ {
			wg.Add(1)
			go func(g int) {
				defer wg.Done()
				<-start
				t.del(g)
				t.store(2000+g, nextVal(2000+g))
				vshim.Progress()
			}(g)
		}
		close(start)
		wg.Wait()
		vshim.SetMode(0)
		runtime.GOMAXPROCS(old)
		size, ranged := t.size(), t.ranged()
		res.count("quiescent_points", 1)
		res.count("mass_delete_rounds", 1)
		if size != last || ranged != last {
			res.violate(violation{Class: "count", Sig: "Size differs from the number of entries present after simultaneous deletes of the last keys of a grown table",
				Msg: fmt.Sprintf("%s: Size()=%d, Range visits %d, %d keys are present", t.name, size, ranged, last), Case: map[string]any{"case_index": idx, "round": rd}})
			break
		}
	}
	res.Evaluations++
	res.count("family:mass-delete", 1)
	fp := newFP()
	fp.addStr("mass-delete")
	fp.add(uint64(idx), uint64(grow), uint64(last))
	res.nontrivial(fp.sum())
}

// shrinkDance: a table grown past its minimum is drained to just above its
// shrink threshold; a few goroutines then insert and delete keys of their own
// while one repeatedly removes and re-adds a resident key, so that the size
// oscillates across the threshold and shrink attempts are started, abandoned and
// completed while other writers are finishing. Size vs Range at the end of each cycle.
func shrinkDance(r rng, res *result, idx int64) {
	vshim.SetVirtual(true)
	vshim.SetVNow(epoch)
	level := pick(r, []int{0, 0, 1, 2})
	procs := pick(r, []int{4, 16, 16})
	cycles := 60
	bad := 0
	name := ""
	for cy := 0; cy < cycles && bad < 3; cy++ {
		t := newSizeTarget(r, noHint, 2048)
		name = t.name
		grow := pick(r, []int{130, 260})
		for k := 0; k < grow; k++ {
			t.store(k, nextVal(k))
		}
		resident := r.between(2, 5)
		for k := resident; k < grow; k++ {
			t.del(k)
		}
		logCase("sizeq round %d shrink-dance %s cycle %d resident=%d level=%d procs=%d", idx, t.name, cy, resident, level, procs)
		old := runtime.GOMAXPROCS(procs)
		vshim.SetPerturb(level, pick(r, []vshim.Kind{vshim.KAfterCAS, vshim.KAfterUnlock, vshim.KAdd, vshim.NKinds}))
		mode := vshim.MCount | vshim.MBudget
		if level > 0 {
			mode |= vshim.MPerturb
		}
		vshim.SetMode(mode)
		vshim.ResetLive()
		var wg sync.WaitGroup
		start := make(chan struct{})
		for g := 0; g < 4; g++ {
			wg.Add(1)
			go func(g int) {
				defer wg.Done()
				<-start
				k := 1000 + g
				for j := 0; j < 12; j++ {
					t.store(k, nextVal(k))
					t.del(k)
					vshim.Progress()
				}
			}(g)
		}
		wg.Add(1)
		go func() {
			defer wg.Done()
			<-start
			for j := 0; j < 6; j++ {
				t.del(0)
				t.store(0, nextVal(0))
				vshim.Progress()
			}
		}()
		var pstop int32
		var pwg sync.WaitGroup
		pwg.Add(1)
		go func() {
			defer pwg.Done()
			<-start
			for atomic.LoadInt32(&pstop) == 0 {
				t.size()
				runtime.Gosched()
			}
		}()
		close(start)
		wg.Wait()
		atomic.StoreInt32(&pstop, 1)
		pwg.Wait()
		vshim.SetMode(0)
		runtime.GOMAXPROCS(old)
		size, ranged := t.size(), t.ranged()
		res.count("quiescent_points", 1)
		if size != ranged || ranged != resident {
			bad++
			res.violate(violation{Class: "count", Sig: "Size differs from the number of entries present after writers danced around the shrink threshold",
				Msg: fmt.Sprintf("%s: Size()=%d, Range visits %d, %d keys are present", t.name, size, ranged, resident), Case: map[string]any{"case_index": idx, "cycle": cy}})
		}
	}
	res.Evaluations++
	res.count("family:shrink-dance", 1)
	fp := newFP()
	fp.addStr("shrink-dance" + name)
	fp.add(uint64(idx))
	res.nontrivial(fp.sum())
}
