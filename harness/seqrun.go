package main

import "fmt"

func init() { engines["seq"] = runSeq }

// property -> (generator profile, instance mode, violation classes reported)
type seqPlan struct {
	profile string
	mode    string
	classes []string
	bulk    bool
	product bool
	rule    string
}

var seqPlans = map[string]seqPlan{
	"C01": {"ttl", "single", []string{"value", "range"}, true, false,
		"case = fresh cache (random flavor/constructor/options) + 40-120 state-aware PRNG calls over 1-6 keys with catalogue TTLs and clock moves aimed at expiry instants (or a bulk wave case); non-trivial = at least one call on an expired-uncleaned or exactly-at-boundary entry; distinct = hash of the call sequence"},
	"C02": {"ttl", "single", []string{"value"}, false, false,
		"sequential component: the TTL semantics every linearization is measured against, incl. calls whose evicted callback outlasts a TTL (the callback moves the virtual clock)"},
	"C05": {"ttl", "single", []string{"value"}, true, false,
		"sequential: GetOrCompute / Compute call counts of the user function and results against the TTL model, incl. bulk waves that grow the table (the call that triggers a grow retries internally and must still run the function once)"},
	"C06": {"callback", "single", []string{"callback"}, true, false,
		"case = sequential call sequence biased to removers with callbacks installed/swapped; non-trivial = at least one call on an expired-uncleaned entry; distinct = hash of the call sequence"},
	"C07": {"range", "single", []string{"range"}, true, false,
		"case = sequential call sequence biased to Range/Items (with early stops); non-trivial = touches an expired-uncleaned entry; distinct = hash of the call sequence"},
	"C08": {"count", "single", []string{"count"}, true, false,
		"case = sequential call sequence, Count/walked size compared after every call; non-trivial = touches an expired-uncleaned entry; distinct = hash of the call sequence"},
	"C09": {"expiry", "single", []string{"expiry", "value"}, false, true,
		"catalogue product (TTL x default x constructor x arming method x prior state, boundary reads at e-1,e,e+1) plus PRNG sequences; non-trivial = touches an entry at/after its expiry instant; distinct = hash of the call sequence"},
	"C11": {"ttl", "layout", []string{"layout"}, true, false,
		"case = one call sequence applied to 4 cache instances with MinCapacity -1/97/1000/100000; non-trivial = touches an expired-uncleaned entry; distinct = hash of the call sequence"},
	"C12": {"ttl", "twin", []string{"twin"}, true, false,
		"case = one call sequence (values nil/int/string/pointer/float/array/struct) applied to Cache and CacheOf[string,any] built by corresponding constructors; every result field compared; non-trivial = touches an expired-uncleaned entry; distinct = hash of the call sequence"},
}

func runSeq(a *args, res *result) {
	plan, ok := seqPlans[a.prop]
	if !ok {
		panic("seq: no plan for " + a.prop)
	}
	sr := &seqRunner{res: res, prop: a.prop, classes: map[string]bool{}}
	for _, c := range plan.classes {
		sr.classes[c] = true
	}
	if plan.mode == "layout" {
		// instances are compared against the model under every class, but only
		// divergence *between* instances is a layout violation; see runLayout
		sr.classes = map[string]bool{"layout": true}
	}
	res.Rule = plan.rule
	idx := int64(0)
	run := func(cs *seqCase) {
		i := idx
		idx++
		if !a.mine(i) {
			return
		}
		logCase("seq %s case %d: %s", a.prop, i, cs.Desc)
		sr.caseIdx = i
		var nt bool
		var fp uint64
		if plan.mode == "layout" {
			nt, fp = sr.runLayoutCase(cs)
		} else {
			nt, fp = sr.runSeqCase(cs)
		}
		res.Evaluations++
		res.count("ops", int64(len(cs.Ops)))
		if nt {
			res.nontrivial(fp)
		}
		if res.Evaluations <= 2 {
			ops := cs.Ops
			if len(ops) > 25 {
				ops = ops[:25]
			}
			for j := range ops {
				ops[j].VS = fmtVal(ops[j].V)
			}
			res.sample(map[string]any{"case": i, "desc": cs.Desc, "specs": specStrings(cs.Specs), "first_ops": ops})
		}
	}
	if plan.product {
		pcs := productCases(cacheFlavors)
		for _, cs := range pcs {
			run(cs)
		}
		res.count("product_cases", int64(len(pcs)))
		res.Notes = append(res.Notes, fmt.Sprintf("catalogue product enumerated completely: %d (flavor x constructor x default) cases", len(pcs)))
	}
	for c := int64(0); c < a.n; c++ {
		r := newRng(a.seed, uint64(c)*4+1)
		if !a.mine(idx) {
			idx++
			continue
		}
		run(genSmallCase(r, plan.profile, plan.mode))
	}
	if plan.bulk {
		for c := int64(0); c < a.n2; c++ {
			r := newRng(a.seed, uint64(c)*4+2)
			if !a.mine(idx) {
				idx++
				continue
			}
			run(genBulkCase(r, plan.mode))
		}
	}
}

// runLayoutCase: run the case once per instance set; any disagreement between
// instances (return value, visit set, count, callback ledger) is a layout
// violation. Implemented by running in twin mode and re-labelling.
func (sr *seqRunner) runLayoutCase(cs *seqCase) (bool, uint64) {
	cs.Twin = true
	inner := &seqRunner{res: sr.res, prop: sr.prop, caseIdx: sr.caseIdx, classes: map[string]bool{"twin": true}}
	before := len(sr.res.Violations)
	nt, fp := inner.runSeqCase(cs)
	sr.res.mu.Lock()
	for i := before; i < len(sr.res.Violations); i++ {
		if sr.res.Violations[i].Class == "twin" {
			sr.res.Violations[i].Class = "layout"
			sr.res.Violations[i].Sig = "instances with different MinCapacity disagree: " + sr.res.Violations[i].Sig
		}
	}
	sr.res.mu.Unlock()
	return nt, fp
}
