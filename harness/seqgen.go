package main

import (
	"fmt"
	"math"
	"sort"
	"time"

	cache "github.com/fufuok/cache"
)

// ---- case generators for the sequential cache engine ----

var storeOps = []string{"Set", "SetDefault", "SetForever", "GetOrSet", "GetAndSet", "GetOrCompute", "Compute"}
var readOps = []string{"Get", "GetWithExpiration", "GetWithTTL", "GetAndRefresh"}
var removeOps = []string{"GetAndDelete", "Delete", "DeleteExpired"}

func genSpec(r rng, flavor string, withCb bool) cacheSpec {
	sp := cacheSpec{Flavor: flavor}
	sp.DefExp = pick(r, defCatalogue)
	if r.chance(0.3) {
		sp.DefExp = time.Duration(r.between(1, 2000))
	}
	sp.Interval = pick(r, []time.Duration{-5 * time.Second, -1, 0, 0, 0, 1, time.Millisecond, 10 * time.Second})
	sp.MinCap = pick(r, []int{-1, 0, 1, 96, 97, 500, 4000})
	switch r.intn(5) {
	case 0:
		sp.Ctor = "NewDefault"
	case 1:
		sp.Ctor = "NewBare"
	default:
		sp.Ctor = "New"
		sp.OptMask = r.intn(16)
	}
	if withCb {
		sp.Callback = func(int, any) {}
		if sp.Ctor == "New" {
			sp.OptMask |= 4
		}
		if sp.Ctor == "NewBare" {
			sp.Ctor = "New"
			sp.OptMask = 4
		}
	} else if sp.Ctor == "New" && sp.OptMask&4 != 0 && r.chance(0.5) {
		sp.OptMask &^= 4
	}
	if sp.Ctor == "New" && sp.OptMask != 0 && r.chance(0.3) {
		// an option list in which earlier options are overridden by later ones
		sp.PreMask = sp.OptMask & r.between(1, 15)
		sp.PreDefExp = pick(r, []time.Duration{250 * time.Millisecond, time.Hour, 1, 0, -5 * time.Second})
		sp.PreInterval = pick(r, []time.Duration{0, 0, -1})
		sp.PreMinCap = pick(r, []int{0, 7, 3000})
	}
	return sp
}

type smallGen struct {
	r            rng
	nkeys        int
	exotic       bool
	nextID       int64
	uncomparable bool   // twin mode: also slices, maps and signed zeros as values
	profile      string // "ttl" (C01), "expiry" (C09), "callback" (C06), "range" (C07), "count" (C08)
}

func (g *smallGen) ttl() time.Duration {
	if g.r.chance(0.04) {
		// any int64 duration for which now+d stays inside int64 nanoseconds
		return time.Duration(g.r.Int64N(1<<61+1<<62) - 1<<62)
	}
	if g.r.chance(0.03) {
		// durations for which call time + d overflows: the entry must simply stay visible
		return pick(g.r, []time.Duration{math.MaxInt64, math.MaxInt64 - 1, 250 * 365 * 24 * time.Hour})
	}
	switch g.r.intn(10) {
	case 0, 1, 2, 3:
		return pick(g.r, ttlCatalogue)
	case 4, 5, 6:
		return time.Duration(g.r.between(1, 50)) // few ns: boundary reads reachable
	case 7:
		return time.Duration(g.r.between(1, 1000)) * time.Microsecond
	case 8:
		return cache.DefaultExpiration
	default:
		return time.Duration(g.r.Int64N(int64(time.Hour)))
	}
}

func (g *smallGen) value(k int) any {
	g.nextID++
	if g.uncomparable {
		return genValueU(k, g.nextID)
	}
	return genValue(g.exotic, k, g.nextID)
}

func (g *smallGen) next(m *ttlModel, now int64, step int) cop {
	r := g.r
	// keys by state
	var expired, pending []int
	for k, e := range m.m {
		if e.e != 0 {
			if now > e.e {
				expired = append(expired, k)
			} else if e.e != farFuture && e.e-now <= int64(48*time.Hour) {
				// far-away instants are not chased: now+d must stay inside int64 ns
				pending = append(pending, k)
			}
		}
	}
	sort.Ints(expired)
	sort.Ints(pending)
	key := func() int {
		if len(expired) > 0 && r.chance(0.45) {
			return pick(r, expired)
		}
		if len(pending) > 0 && r.chance(0.3) {
			return pick(r, pending)
		}
		return r.intn(g.nkeys)
	}
	w := []int{30, 26, 10, 8, 14, 4, 4, 4} // store, read, remove, traverse, clock, clear/count, default, callback
	switch g.profile {
	case "callback":
		w = []int{30, 10, 30, 4, 14, 2, 2, 8}
	case "range":
		w = []int{30, 10, 8, 30, 14, 4, 2, 2}
	case "expiry":
		w = []int{30, 34, 4, 4, 14, 2, 10, 2}
	case "count":
		w = []int{34, 14, 18, 6, 14, 10, 2, 2}
	}
	switch r.weighted(w) {
	case 0:
		k := key()
		op := cop{Op: pick(r, storeOps), K: k, V: g.value(k), D: g.ttl()}
		if op.Op == "Compute" {
			op.Fn = pick(r, []string{"set", "set", "del", "delnz", "cond"})
		}
		return op
	case 1:
		op := cop{Op: pick(r, readOps), K: key()}
		if op.Op == "GetAndRefresh" {
			op.D = g.ttl()
		}
		return op
	case 2:
		return cop{Op: pick(r, removeOps), K: key()}
	case 3:
		if len(pending) > 0 && r.chance(0.25) {
			// traversal during which the clock passes an expiry instant
			e := m.m[pick(r, pending)].e
			return cop{Op: "RangeAdv", Now: e + int64(r.between(0, 2))}
		}
		switch r.intn(6) {
		case 0:
			return cop{Op: "Items"}
		case 1:
			return cop{Op: "RangeNil"}
		case 2, 3:
			return cop{Op: "Range", StopAt: r.between(1, 4)}
		default:
			return cop{Op: "Range"}
		}
	case 4:
		// clock move, aimed at an outstanding expiry instant when there is one
		if len(pending) > 0 && r.chance(0.8) {
			e := m.m[pick(r, pending)].e
			t := e + int64(r.between(-1, 1))
			if t < now {
				t = now
			}
			return cop{Op: "Clock", Now: t}
		}
		d := int64(r.between(0, 30))
		if r.chance(0.2) {
			d = r.Int64N(int64(2 * time.Hour))
		}
		return cop{Op: "Clock", Now: now + d}
	case 5:
		return cop{Op: pick(r, []string{"Clear", "Count", "Count", "Count"})}
	case 6:
		if r.chance(0.5) {
			return cop{Op: "DefaultExpiration"}
		}
		d := pick(r, defCatalogue)
		if r.chance(0.4) {
			d = time.Duration(r.between(1, 100))
		}
		return cop{Op: "SetDefaultExpiration", D: d}
	default:
		if r.chance(0.3) {
			return cop{Op: "HasCallback"}
		}
		return cop{Op: "SetCallback", CbID: r.intn(4), CbMode: pick(r, []string{"", "", "", "once", "adv", "adv", "probe", "probe"})}
	}
}

func genSmallCase(r rng, profile string, mode string) *seqCase {
	g := &smallGen{r: r, nkeys: r.between(1, 6), profile: profile}
	cs := &seqCase{NKeys: g.nkeys, NOps: r.between(40, 120), FullEach: 1, BoundEach: 1}
	withCb := r.chance(0.5) || profile == "callback" && r.chance(0.8)
	switch mode {
	case "twin":
		g.exotic = true
		g.uncomparable = true
		sp := genSpec(r, "Cache", withCb)
		sp2 := sp
		sp2.Flavor = "CacheOf[string,any]"
		cs.Specs = []cacheSpec{sp, sp2}
		cs.Twin = true
	case "layout":
		fl := pick(r, cacheFlavors)
		g.exotic = fl == "Cache" || fl == "CacheOf[string,any]"
		sp := genSpec(r, fl, withCb)
		if sp.Ctor != "New" {
			sp.Ctor, sp.OptMask = "New", 1|2
			if withCb {
				sp.OptMask |= 4
			}
		}
		sp.OptMask |= 8
		for _, c := range []int{-1, 97, 1000, 100000} {
			s2 := sp
			s2.MinCap = c
			cs.Specs = append(cs.Specs, s2)
		}
	default:
		fl := pick(r, cacheFlavors)
		g.exotic = (fl == "Cache" || fl == "CacheOf[string,any]") && r.chance(0.5)
		cs.Specs = []cacheSpec{genSpec(r, fl, withCb)}
	}
	cs.Exotic = g.exotic
	cs.Gen = g.next
	cs.Desc = fmt.Sprintf("small/%s/%s keys=%d ops=%d", profile, mode, cs.NKeys, cs.NOps)
	return cs
}

// bulk: thousands of keys with mixed TTLs, insert and delete waves that cross
// the grow and shrink thresholds while unexpired and expired entries coexist.
type bulkGen struct {
	r      rng
	n      int
	script []cop
}

func genBulkCase(r rng, mode string) *seqCase {
	n := pick(r, []int{150, 400, 1500, 6000, 20000})
	g := &bulkGen{r: r, n: n}
	id := int64(0)
	now := epoch
	add := func(o cop) { g.script = append(g.script, o) }
	waves := r.between(2, 4)
	for w := 0; w < waves; w++ {
		// insert wave
		lo, hi := 0, n
		if r.chance(0.3) {
			lo = r.intn(n / 2)
		}
		for k := lo; k < hi; k++ {
			id++
			var d time.Duration
			switch (k + w) % 4 {
			case 0:
				d = time.Duration(r.between(1, 1000)) * time.Microsecond
			case 1:
				d = cache.NoExpiration
			case 2:
				d = time.Hour
			default:
				d = time.Duration(r.between(1, 3)) * time.Millisecond
			}
			add(cop{Op: pick(r, []string{"Set", "Set", "GetAndSet", "GetOrSet", "Compute"}), K: k, V: mkVal(k, id), D: d, Fn: "set"})
			if k%97 == 0 {
				add(cop{Op: "Get", K: r.intn(n)})
			}
		}
		add(cop{Op: "Items"})
		// let part of them expire
		now += int64(pick(r, []time.Duration{500 * time.Microsecond, 2 * time.Millisecond, 5 * time.Millisecond}))
		add(cop{Op: "Clock", Now: now})
		for i := 0; i < n/10+5; i++ {
			add(cop{Op: pick(r, readOps), K: r.intn(n), D: time.Minute})
		}
		add(cop{Op: "Range"})
		if r.chance(0.5) {
			add(cop{Op: "DeleteExpired"})
			add(cop{Op: "Items"})
		}
		// delete wave: down to a few keys (shrinks)
		keep := pick(r, []int{0, 1, 5, n / 50})
		for k := n - 1; k >= keep; k-- {
			add(cop{Op: pick(r, []string{"Delete", "Delete", "GetAndDelete", "Compute"}), K: k, Fn: "del"})
		}
		add(cop{Op: "Items"})
		if r.chance(0.3) {
			add(cop{Op: "Clear"})
		}
	}
	cs := &seqCase{NKeys: n, NOps: len(g.script), FullEach: 0, BoundEach: 211}
	fl := pick(r, cacheFlavors)
	sp := genSpec(r, fl, r.chance(0.3))
	sp.DefExp = time.Hour
	cs.Specs = []cacheSpec{sp}
	if mode == "layout" {
		sp.Ctor, sp.OptMask = "New", 1|2|8
		cs.Specs = nil
		for _, c := range []int{-1, 97, 1000, 100000} {
			s2 := sp
			s2.MinCap = c
			cs.Specs = append(cs.Specs, s2)
		}
	} else if mode == "twin" {
		sp.Flavor = "Cache"
		s2 := sp
		s2.Flavor = "CacheOf[string,any]"
		cs.Specs = []cacheSpec{sp, s2}
		cs.Twin = true
	}
	cs.Gen = func(m *ttlModel, now int64, step int) cop { return g.script[step] }
	cs.Desc = fmt.Sprintf("bulk/%s keys=%d ops=%d waves=%d", mode, n, cs.NOps, waves)
	return cs
}

// ---- C09: exhaustive catalogue product ----
// every TTL x every default x constructor form x storing/refreshing method x
// prior state, each followed by the boundary reads at e-1, e, e+1.

type ctorForm struct {
	Ctor string
	Mask int
	Cb   bool
}

var ctorForms = []ctorForm{
	{"New", 1, false}, {"New", 1 | 2, false}, {"New", 1 | 4, true}, {"New", 1 | 2 | 4 | 8, true},
	{"NewDefault", 0, false}, {"NewDefault", 0, true}, {"New", 0, false}, {"NewBare", 0, false},
}

var armOps = []string{"Set", "SetDefault", "SetForever", "GetOrSet", "GetAndSet", "GetOrCompute", "Compute", "GetAndRefresh", "SetDefaultExpiration+SetDefault"}

func productCases(flavors []string) []*seqCase {
	var out []*seqCase
	ttls := append([]time.Duration{}, ttlCatalogue...)
	ttls = append(ttls, 3, 7, 1000, math.MaxInt64/4, cache.NoExpiration*2, cache.DefaultExpiration*2, -time.Hour, time.Minute, 24*time.Hour, 5)
	for _, fl := range flavors {
		for _, cf := range ctorForms {
			for _, def := range defCatalogue {
				fl, cf, def := fl, cf, def
				// one case = all ttls x ops x prior states for this (flavor, ctor, default)
				var script []cop
				id := int64(0)
				k := 0
				for _, d := range ttls {
					for _, opn := range armOps {
						for prior := 0; prior < 3; prior++ {
							// prior: 0 fresh key, 1 live, 2 expired-uncleaned
							k++
							id++
							switch prior {
							case 1:
								script = append(script, cop{Op: "Set", K: k, V: mkVal(k, id), D: time.Hour})
							case 2:
								script = append(script, cop{Op: "Set", K: k, V: mkVal(k, id), D: 1}, cop{Op: "Clock", Now: -5}) // relative advance, see Gen
							}
							id++
							switch opn {
							case "SetDefaultExpiration+SetDefault":
								script = append(script, cop{Op: "SetDefaultExpiration", D: d}, cop{Op: "SetDefault", K: k, V: mkVal(k, id)},
									cop{Op: "DefaultExpiration"})
							case "Compute":
								script = append(script, cop{Op: opn, K: k, V: mkVal(k, id), D: d, Fn: "set"})
							default:
								script = append(script, cop{Op: opn, K: k, V: mkVal(k, id), D: d})
							}
							// boundary reads are appended by the generator (they need the model's e)
							script = append(script, cop{Op: "@boundary", K: k})
						}
					}
				}
				nkeys := k + 1
				var pend []cop
				i := 0
				cs := &seqCase{NKeys: nkeys, FullEach: 0, BoundEach: 509}
				cs.Gen = func(m *ttlModel, now int64, step int) cop {
					for {
						if len(pend) > 0 {
							o := pend[0]
							pend = pend[1:]
							return o
						}
						if i >= len(script) {
							return cop{}
						}
						o := script[i]
						i++
						switch {
						case o.Op == "Clock" && o.Now < 0:
							return cop{Op: "Clock", Now: now - o.Now}
						case o.Op == "@boundary":
							e := m.m[o.K]
							if e == nil {
								pend = []cop{{Op: "Get", K: o.K}}
							} else if e.e == 0 {
								pend = []cop{{Op: "GetWithExpiration", K: o.K}, {Op: "GetWithTTL", K: o.K}, {Op: "Clock", Now: now + int64(time.Hour)}, {Op: "Get", K: o.K}}
							} else if e.e-now > int64(time.Hour) {
								pend = []cop{{Op: "GetWithExpiration", K: o.K}, {Op: "GetWithTTL", K: o.K}, {Op: "Clock", Now: now + 1000}, {Op: "GetWithTTL", K: o.K}}
							} else if e.e-1 >= now {
								pend = []cop{{Op: "GetWithExpiration", K: o.K}, {Op: "GetWithTTL", K: o.K},
									{Op: "Clock", Now: e.e - 1}, {Op: "GetWithTTL", K: o.K},
									{Op: "Clock", Now: e.e}, {Op: "GetWithExpiration", K: o.K}, {Op: "GetWithTTL", K: o.K},
									{Op: "Clock", Now: e.e + 1}, {Op: "Get", K: o.K}}
							} else {
								pend = []cop{{Op: "Get", K: o.K}}
							}
						default:
							return o
						}
					}
				}
				cs.NOps = len(script) * 8
				sp := cacheSpec{Flavor: fl, Ctor: cf.Ctor, OptMask: cf.Mask, DefExp: def, Interval: 0, MinCap: 0}
				if cf.Cb {
					sp.Callback = func(int, any) {}
				}
				cs.Specs = []cacheSpec{sp}
				cs.Desc = fmt.Sprintf("product %s %s/mask%d default=%d: %d ttls x %d ops x 3 states", fl, cf.Ctor, cf.Mask, def, len(ttls), len(armOps))
				out = append(out, cs)
			}
		}
	}
	return out
}
