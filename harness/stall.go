package main

import (
	"fmt"
	"math"
	"strings"
	"time"

	"github.com/fufuok/cache/zzverif/vshim"
)

func init() { engines["stall"] = runStall }

// C16: reads never wait for writers. Fault enumeration of stall points: the
// writer is parked at shim step N = 1, 2, ... of its operation (every point
// between two of its atomic / lock operations) or inside its user function,
// and while it is held a reader must complete every lookup within a bounded
// number of its own shim steps, returning the last completely written value.

const readerStepLimit = 10000

type stallTarget struct {
	name      string
	zero      any
	isCache   bool
	load      []func(k int) (any, bool) // all read-only lookups (Load / Get / GetWithExpiration / GetWithTTL)
	loadNm    []string
	hit       []func(k int, v any) (any, bool) // hit paths of LoadOrStore / LoadOrCompute / GetOrSet / GetOrCompute
	hitNm     []string
	size      func() int
	store     func(k int, v any)
	del       func(k int)
	clear     func()
	compute   func(k int, fn func(old any, loaded bool) (any, bool)) (any, bool)
	orCompute func(k int, fn func() any) (any, bool)
	rng       func(f func(k int, v any) bool)
	delExp    func()
	setShort  func(k int, v any)
	stats     func() (g, s int64)
	raw       any
}

func newStallTarget(r rng, kind string, nkeys int) *stallTarget {
	t := &stallTarget{}
	switch kind {
	case "Cache", "CacheOf[int,val]", "CacheOf[skey,val]", "CacheOf[string,any]":
		c := newCache(cacheSpec{Flavor: kind, Ctor: "New", OptMask: 1 | 2, DefExp: time.Hour, Interval: 0, NKeys: nkeys})
		t.name, t.zero, t.isCache = kind, c.Zero(), true
		t.load = []func(int) (any, bool){c.Get,
			func(k int) (any, bool) { v, _, ok := c.GetWithExpiration(k); return v, ok },
			func(k int) (any, bool) { v, _, ok := c.GetWithTTL(k); return v, ok }}
		t.loadNm = []string{"Get", "GetWithExpiration", "GetWithTTL"}
		t.size = c.Count
		// half of the entries never expire, half carry a long TTL: both kinds must be lock-free to read
		// (and every fifth a TTL so long that call time + TTL overflows: "never" as well)
		t.store = func(k int, v any) {
			switch {
			case k%5 == 4:
				c.Set(k, v, time.Duration(math.MaxInt64))
			case k%2 == 0:
				c.SetForever(k, v)
			default:
				c.Set(k, v, time.Hour)
			}
		}
		t.setShort = func(k int, v any) { c.Set(k, v, 5) }
		t.del = c.Delete
		t.clear = c.Clear
		t.compute = func(k int, fn func(any, bool) (any, bool)) (any, bool) { return c.Compute(k, fn, time.Hour) }
		t.orCompute = func(k int, fn func() any) (any, bool) { return c.GetOrCompute(k, fn, time.Hour) }
		t.rng = c.Range
		t.delExp = c.DeleteExpired
		t.stats = func() (int64, int64) { st, _ := c.Stats(); return st.TotalGrowths, st.TotalShrinks }
	default:
		sp := mapSpec{Flavor: kind, Hint: noHint, NKeys: nkeys}
		if i := strings.IndexByte(kind, '/'); i >= 0 {
			sp.Flavor, sp.Hasher = kind[:i], kind[i+1:]
		}
		m := newMap(sp)
		t.name, t.zero, t.raw = kind, m.Zero(), m.Raw()
		t.load = []func(int) (any, bool){m.Load}
		t.loadNm = []string{"Load"}
		t.hit = []func(int, any) (any, bool){m.LoadOrStore, func(k int, v any) (any, bool) { return m.LoadOrCompute(k, func() any { return v }) }}
		t.hitNm = []string{"LoadOrStore(hit)", "LoadOrCompute(hit)"}
		t.size = m.Size
		t.store = m.Store
		t.del = m.Delete
		t.clear = m.Clear
		t.compute = m.Compute
		t.orCompute = m.LoadOrCompute
		t.rng = m.Range
		t.stats = func() (int64, int64) { st, _ := mapStats(m); return st.TotalGrowths, st.TotalShrinks }
	}
	return t
}

var stallKinds = []string{"Map", "MapOf[int,val]", "MapOf[int,val]/const", "MapOf[string,val]/sameh1", "MapOf[skey,val]/mix", "Cache", "CacheOf[int,val]", "CacheOf[skey,val]"}

type stallScenario struct {
	name      string
	base      int // stable keys 0..base-1 are present before the writer runs
	prep      func(t *stallTarget)
	writer    func(t *stallTarget, block func())
	touched   []int // keys the writer may change (everything else is stable or absent)
	inFn      bool  // the stall is inside the user function (block() is called by it)
	cacheOnly bool
}

const wkey = 900 // the writer's key

func stallScenarios(r rng) []stallScenario {
	batch := func(lo, n int) []int {
		x := make([]int, n)
		for i := range x {
			x[i] = lo + i
		}
		return x
	}
	return []stallScenario{
		{name: "insert", base: 20, writer: func(t *stallTarget, _ func()) { t.store(wkey, nextVal(wkey)) }, touched: []int{wkey}},
		{name: "insert-near-threshold", base: pick(r, []int{60, 70, 72, 118}), writer: func(t *stallTarget, _ func()) { t.store(wkey, nextVal(wkey)) }, touched: []int{wkey}},
		{name: "update", base: 40, prep: func(t *stallTarget) { t.store(wkey, nextVal(wkey)) }, writer: func(t *stallTarget, _ func()) { t.store(wkey, nextVal(wkey)) }, touched: []int{wkey}},
		{name: "delete", base: 40, prep: func(t *stallTarget) { t.store(wkey, nextVal(wkey)) }, writer: func(t *stallTarget, _ func()) { t.del(wkey) }, touched: []int{wkey}},
		{name: "compute-delete-absent", base: 70, writer: func(t *stallTarget, _ func()) {
			t.compute(wkey, func(any, bool) (any, bool) { return nextVal(wkey), true })
		}, touched: []int{wkey}},
		{name: "grow-batch", base: pick(r, []int{68, 71, 73, 120}), writer: func(t *stallTarget, _ func()) {
			for k := 1000; k < 1040; k++ {
				t.store(k, nextVal(k))
			}
		}, touched: batch(1000, 40)},
		{name: "shrink-batch", base: 3, prep: func(t *stallTarget) {
			for k := 1000; k < 1600; k++ {
				t.store(k, nextVal(k))
			}
			for k := 1000; k < 1560; k++ {
				t.del(k)
			}
		}, writer: func(t *stallTarget, _ func()) {
			for k := 1560; k < 1600; k++ {
				t.del(k)
			}
		}, touched: batch(1560, 40)},
		{name: "clear", base: 50, writer: func(t *stallTarget, _ func()) { t.clear() }, touched: nil},
		{name: "range", base: 30, writer: func(t *stallTarget, _ func()) { t.rng(func(int, any) bool { return true }) }},
		{name: "compute-fn-blocks", base: 50, inFn: true, prep: func(t *stallTarget) { t.store(wkey, nextVal(wkey)) }, writer: func(t *stallTarget, block func()) {
			t.compute(wkey, func(old any, l bool) (any, bool) { block(); return nextVal(wkey), false })
		}, touched: []int{wkey}},
		{name: "orcompute-fn-blocks", base: 70, inFn: true, writer: func(t *stallTarget, block func()) {
			t.orCompute(wkey, func() any { block(); return nextVal(wkey) })
		}, touched: []int{wkey}},
		{name: "range-visitor-blocks", base: 30, inFn: true, writer: func(t *stallTarget, block func()) {
			n := 0
			t.rng(func(int, any) bool {
				n++
				if n == 3 {
					block()
				}
				return true
			})
		}},
		{name: "delete-expired", base: 30, cacheOnly: true, prep: func(t *stallTarget) {
			for k := 1000; k < 1020; k++ {
				t.setShort(k, nextVal(k))
			}
			vshim.AdvanceQuiet(50)
		}, writer: func(t *stallTarget, _ func()) { t.delExp() }, touched: batch(1000, 20)},
	}
}

func runStall(a *args, res *result) {
	res.Rule = "scenario = (container kind, writer operation, stall point): the writer runs alone on a fresh container and is parked at global shim step N of its operation, N = 1,2,... until the operation completes without parking (every point between two atomic/lock operations of that execution), or blocks inside its user function; while it is held the reader looks up every stable key, absent keys and the writer's keys with every read-only method and the hit paths of LoadOrStore/LoadOrCompute, and calls Size/Count; each read must finish within 10^4 own shim steps (polling locks make waiting consume steps) and return exactly the stable value / a miss / old-or-new for the writer's keys; non-trivial = the writer was really parked mid-operation; distinct = (kind, operation, stall point, layout round)"
	vshim.SetVirtual(true)
	stuckCh := make(chan string, 1)
	vshim.OnStuck = func(reason string) {
		stuckCh <- reason
		select {}
	}
	rounds := a.n
	var maxReaderSteps int64
	unit := int64(0)
	for round := int64(0); round < rounds; round++ {
		for _, kind := range stallKinds {
			unit++
			if !a.mine(unit - 1) {
				continue
			}
			r := newRng(a.seed, uint64(unit)*8+2)
			for _, sc := range stallScenarios(r) {
				isCache := kind == "Cache" || kind == "CacheOf[int,val]" || kind == "CacheOf[skey,val]"
				if sc.cacheOnly && !isCache {
					continue
				}
				misses, points := 0, 0
				for N := int64(1); misses < 3 && N < 4000; N++ {
					vshim.SetVNow(epoch)
					t := newStallTarget(r, kind, 2048)
					stable := map[int]any{}
					for k := 0; k < sc.base; k++ {
						var v any = nextVal(k)
						if t.zero == nil && k%5 == 3 {
							v = nil // a stored untyped nil is a present value like any other
						}
						t.store(k, v)
						stable[k] = v
					}
					if sc.prep != nil {
						sc.prep(t)
					}
					touched := map[int]bool{}
					for _, k := range sc.touched {
						touched[k] = true
					}
					before := map[int]any{}
					for k := range touched {
						if v, ok := t.load[0](k); ok {
							before[k] = v
						}
					}
					sizeBefore := t.size()
					logCase("stall round %d %s %s N=%d", round, kind, sc.name, N)
					res.Evaluations++
					done := make(chan struct{})
					fnBlocked := make(chan struct{}, 1)
					release := make(chan struct{})
					block := func() { fnBlocked <- struct{}{}; <-release }
					vshim.ResetGStep()
					vshim.SetStepBudget(0)
					vshim.SetMode(vshim.MGlobal | vshim.MPoll | vshim.MCount)
					if !sc.inFn {
						vshim.ArmPark(N)
					}
					go func() {
						sc.writer(t, block)
						close(done)
					}()
					parked := false
					select {
					case <-vshim.Parked():
						parked = true
					case <-fnBlocked:
						parked = true
					case <-done:
					}
					if !parked {
						vshim.ArmPark(0)
						vshim.SetMode(0)
						misses++
						if sc.inFn {
							misses = 3
						}
						continue
					}
					misses = 0
					points++
					res.count("parked_scenarios", 1)
					fp := newFP()
					fp.addStr(kind + sc.name)
					fp.add(uint64(N), uint64(round))
					res.nontrivial(fp.sum())
					// ---- reader battery, on its own goroutine so that a stuck reader can be abandoned
					type finding struct{ sig, msg string }
					var finds []finding
					rdone := make(chan struct{})
					reads := int64(0)
					go func() {
						defer close(rdone)
						vshim.SetStepBudget(50 * readerStepLimit)
						check := func(what string, k int, f func() (any, bool)) {
							s0 := vshim.GStep()
							v, ok := f()
							d := vshim.GStep() - s0
							reads++
							if d > maxReaderSteps {
								maxReaderSteps = d
							}
							if d > readerStepLimit {
								finds = append(finds, finding{what + " needs more than 10^4 own steps while a writer is stalled", fmt.Sprintf("%s(k%d) took %d steps", what, k, d)})
							}
							switch {
							case touched[k]:
								old, had := before[k]
								okOld := (had && ok && v == old) || (!had && !ok)
								// new: any value written under k with a fresh id, or (for deletes/clear) a miss
								okNew := !ok || (ok && v != old)
								if x, isv := v.(val); ok && isv && int(x.K) != k {
									okNew, okOld = false, false
								}
								if !okOld && !okNew {
									finds = append(finds, finding{what + " returns neither the old nor the new value of the key being written", fmt.Sprintf("%s(k%d) = (%s,%v), before (%s,%v)", what, k, fmtVal(v), ok, fmtVal(old), had)})
								}
							default:
								want, present := stable[k]
								if sc.name == "clear" {
									// a stalled Clear: a stable key is either still there or already gone
									if ok && v != want {
										finds = append(finds, finding{what + " returns a wrong value while Clear is stalled", fmt.Sprintf("%s(k%d) = (%s,%v), stored %s", what, k, fmtVal(v), ok, fmtVal(want))})
									}
								} else if ok != present || (present && v != want) || (!present && v != t.zero) {
									finds = append(finds, finding{what + " returns a wrong result for a key no writer touches while a writer is stalled", fmt.Sprintf("%s(k%d) = (%s,%v), want (%s,%v)", what, k, fmtVal(v), ok, fmtVal(want), present)})
								}
							}
						}
						keys := make([]int, 0, sc.base+len(sc.touched)+8)
						for k := 0; k < sc.base; k++ {
							keys = append(keys, k)
						}
						keys = append(keys, sc.touched...)
						for k := 1900; k < 1908; k++ {
							keys = append(keys, k) // never written
						}
						for li, ld := range t.load {
							for _, k := range keys {
								k, ld := k, ld
								check(t.loadNm[li], k, func() (any, bool) { return ld(k) })
							}
						}
						if sc.name != "clear" {
							for hi, hf := range t.hit {
								for k := 0; k < sc.base; k++ {
									k, hf := k, hf
									check(t.hitNm[hi], k, func() (any, bool) { return hf(k, nextVal(k)) })
								}
							}
						}
						s0 := vshim.GStep()
						n := t.size()
						if d := vshim.GStep() - s0; d > readerStepLimit {
							finds = append(finds, finding{"Size/Count needs more than 10^4 own steps while a writer is stalled", fmt.Sprintf("took %d steps", d)})
						}
						lo, hi := sizeBefore-len(sc.touched), sizeBefore+len(sc.touched)
						if sc.name == "clear" {
							lo = 0
						}
						if n < lo || n > hi {
							finds = append(finds, finding{"Size/Count out of range while a writer is stalled", fmt.Sprintf("Size=%d, before %d, writer touches %d keys", n, sizeBefore, len(sc.touched))})
						}
						vshim.SetStepBudget(0)
					}()
					stuck := ""
					select {
					case <-rdone:
					case stuck = <-stuckCh:
						finds = append(finds, finding{"a read-only call does not return while a writer is stalled (" + kind + ")", stuck})
						vshim.SetStepBudget(0)
					}
					res.count("reads_while_stalled", reads)
					// ---- release the writer; it must complete
					if sc.inFn {
						close(release)
					} else {
						vshim.Resume()
					}
					<-done
					vshim.SetMode(0)
					for _, f := range finds {
						res.violate(violation{Class: "stall", Sig: f.sig, Msg: fmt.Sprintf("%s, writer %s parked at step %d: %s", kind, sc.name, N, f.msg),
							Case: map[string]any{"case_index": round, "kind": kind, "writer": sc.name, "stall_point": N}})
					}
					// quiescent afterwards: stable keys intact (except after Clear)
					if sc.name != "clear" && stuck == "" {
						for k, want := range stable {
							if v, ok := t.load[0](k); !ok || v != want {
								res.violate(violation{Class: "stall", Sig: "stable key damaged after the stalled writer completed", Msg: fmt.Sprintf("%s %s N=%d: k%d = (%s,%v)", kind, sc.name, N, k, fmtVal(v), ok),
									Case: map[string]any{"case_index": round, "kind": kind, "writer": sc.name, "stall_point": N}})
								break
							}
						}
					}
					if sc.inFn || stuck != "" {
						// a reader that never returns has been reported: no need to enumerate
						// the remaining stall points of this operation
						break
					}
				}
				res.max("max_stall_points:"+sc.name, int64(points))
				res.count("stall_points:"+kind, int64(points))
			}
		}
	}
	// ---- parked-reader scenarios: the READER is suspended between two of its own
	// atomic operations, a first writer completes an update of the key it is
	// looking up (so that whatever the reader had half-read is stale), a second
	// writer then stalls inside its user function while holding that bucket, and
	// only then is the reader resumed: it must still finish on its own steps.
	for round := int64(0); round < rounds; round++ {
		for _, kind := range stallKinds {
			unit++
			if !a.mine(unit - 1) {
				continue
			}
			r := newRng(a.seed, uint64(unit)*8+3)
			probe := newStallTarget(r, kind, 64)
			nLook := len(probe.load) + len(probe.hit)
			for li := 0; li < nLook; li++ {
				misses, points := 0, 0
				for N := int64(1); misses < 3 && N < 200; N++ {
					vshim.SetVNow(epoch)
					t := newStallTarget(r, kind, 2048)
					for k := 0; k < 30; k++ {
						t.store(k, nextVal(k))
					}
					const X = 4
					v0, _ := t.load[0](X)
					name := ""
					var look func() (any, bool)
					if li < len(t.load) {
						name, look = t.loadNm[li], func() (any, bool) { return t.load[li](X) }
					} else {
						h := li - len(t.load)
						name, look = t.hitNm[h], func() (any, bool) { return t.hit[h](X, nextVal(X)) }
					}
					logCase("stall parked-reader %s %s N=%d", kind, name, N)
					res.Evaluations++
					type rres struct {
						v  any
						ok bool
					}
					rdone := make(chan rres, 1)
					vshim.ResetGStep()
					vshim.SetStepBudget(0)
					vshim.SetMode(vshim.MGlobal | vshim.MPoll | vshim.MCount)
					vshim.ArmPark(N)
					go func() {
						v, ok := look()
						rdone <- rres{v, ok}
					}()
					parked := false
					select {
					case <-vshim.Parked():
						parked = true
					case <-rdone:
					}
					if !parked {
						vshim.ArmPark(0)
						vshim.SetMode(0)
						misses++
						continue
					}
					misses = 0
					points++
					// writer A: completes an in-place update of X
					v1 := nextVal(X)
					t.store(X, v1)
					// writer B: stalls in its user function, holding X's bucket
					fnBlocked := make(chan struct{}, 1)
					release := make(chan struct{})
					bdone := make(chan struct{})
					go func() {
						t.compute(X, func(old any, l bool) (any, bool) {
							fnBlocked <- struct{}{}
							<-release
							return old, false
						})
						close(bdone)
					}()
					<-fnBlocked
					vshim.SetStepBudget(50 * readerStepLimit)
					s0 := vshim.GStep()
					vshim.Resume()
					var finding, msg string
					select {
					case rr := <-rdone:
						d := vshim.GStep() - s0
						if d > maxReaderSteps {
							maxReaderSteps = d
						}
						if d > readerStepLimit {
							finding, msg = name+" needs more than 10^4 own steps (reader suspended mid-lookup, then a writer stalls)", fmt.Sprintf("%d steps", d)
						} else if !rr.ok || (rr.v != v0 && rr.v != v1) {
							finding, msg = name+" returns neither the old nor the new value (reader suspended mid-lookup)", fmt.Sprintf("(%s,%v), old %s new %s", fmtVal(rr.v), rr.ok, fmtVal(v0), fmtVal(v1))
						}
					case why := <-stuckCh:
						finding, msg = "a read-only call suspended mid-lookup does not return once a writer stalls on its bucket ("+kind+")", why
					}
					vshim.SetStepBudget(0)
					close(release)
					<-bdone
					vshim.SetMode(0)
					res.count("parked_reader_scenarios", 1)
					fp := newFP()
					fp.addStr(kind + name + "parked-reader")
					fp.add(uint64(N), uint64(round))
					res.nontrivial(fp.sum())
					if finding != "" {
						res.violate(violation{Class: "stall", Sig: finding, Msg: fmt.Sprintf("%s, %s parked at its step %d: %s", kind, name, N, msg),
							Case: map[string]any{"case_index": round, "kind": kind, "reader": name, "stall_point": N}})
						break
					}
				}
				res.max("max_reader_stall_points", int64(points))
			}
		}
	}
	res.max("max_reader_steps", maxReaderSteps)
	res.sample(map[string]any{"kinds": stallKinds, "writer_operations": func() []string {
		var n []string
		for _, s := range stallScenarios(newRng(1, 1)) {
			n = append(n, s.name)
		}
		return n
	}(), "reader_step_limit": readerStepLimit})
}
