package main

import (
	"fmt"
	"runtime"
	"sort"
	"sync"
	"sync/atomic"
	"time"

	"github.com/fufuok/cache/zzverif/vshim"
)

func init() { engines["atomic"] = runAtomic }

// C05: get-or-create and compute calls are atomic per key; the user function
// runs once. Rounds of k racers on ONE key, exact counting oracles.

type racerOut struct {
	v      any
	loaded bool
	calls  int32
	old    any
	oldOK  bool
}

type c05Target struct {
	name string
	zero any
	// all operate on key index k
	getOrSet     func(k int, v any) (any, bool)
	getOrCompute func(k int, fn func() any) (any, bool)
	swap         func(k int, v any) (any, bool) // GetAndSet / LoadAndStore
	compute      func(k int, fn func(old any, loaded bool) (any, bool)) (any, bool)
	refresh      func(k int) (any, bool) // caches only
	store        func(k int, v any)
	storeExpired func(k int, v any) // caches: entry that is expired-uncleaned when the race starts
	del          func(k int)
	load         func(k int) (any, bool)
	growths      func() int64
}

func mapTarget(m mapAPI) *c05Target {
	return &c05Target{name: m.Name(), zero: m.Zero(),
		getOrSet: m.LoadOrStore, getOrCompute: m.LoadOrCompute, swap: m.LoadAndStore, compute: m.Compute,
		store: m.Store, del: m.Delete, load: m.Load,
		growths: func() int64 { st, _ := mapStats(m); return st.TotalGrowths }}
}

// slow: the user function takes longer (in virtual time) than the TTL the
// entry is stored with. The TTL runs from the moment the entry is created, so
// the entry is live when the call returns and every later racer must see it.
func cacheTarget(c cacheAPI, slow bool) *c05Target {
	ttl := time.Hour
	name := c.Name()
	if slow {
		ttl = 50
		name += "/slow-fn"
	}
	tick := func() {
		if slow {
			vshim.AdvanceQuiet(100)
		}
	}
	return &c05Target{name: name, zero: c.Zero(),
		getOrSet: func(k int, v any) (any, bool) { return c.GetOrSet(k, v, time.Hour) },
		getOrCompute: func(k int, fn func() any) (any, bool) {
			return c.GetOrCompute(k, func() any { v := fn(); tick(); return v }, ttl)
		},
		swap: func(k int, v any) (any, bool) { return c.GetAndSet(k, v, time.Hour) },
		compute: func(k int, fn func(any, bool) (any, bool)) (any, bool) {
			return c.Compute(k, func(o any, l bool) (any, bool) { n, d := fn(o, l); tick(); return n, d }, ttl)
		},
		refresh: func(k int) (any, bool) { return c.GetAndRefresh(k, 2*time.Hour) },
		store:   func(k int, v any) { c.Set(k, v, time.Hour) },
		storeExpired: func(k int, v any) {
			c.Set(k, v, 5)
			vshim.AdvanceQuiet(10)
		},
		del:     c.Delete,
		load:    c.Get,
		growths: func() int64 { st, _ := c.Stats(); return st.TotalGrowths }}
}

func runAtomic(a *args, res *result) {
	res.Rule = "round = k in 2..16 goroutines racing ONE method (LoadOrStore/LoadOrCompute/GetOrSet/GetOrCompute, Compute increment, LoadAndStore/GetAndSet swap chain, GetAndRefresh) on ONE key that starts absent, live or expired-uncleaned, next to writers of bucket mates and filler inserts sized so the table crosses a grow threshold during the race; random perturbation/GOMAXPROCS/polling; oracles are exact counts (one loaded=false, one value, valueFn calls, permutation of swapped values, final counter); non-trivial = round in which calls really overlapped (tickets) ; distinct = hash of (method,start state,container,k, ticket order of call/return events)"
	vshim.SetVirtual(true)
	vshim.SetLiveBudget(1 << 28)
	for i := int64(0); i < a.n; i++ {
		if !a.mine(i) {
			continue
		}
		r := newRng(a.seed, uint64(i)*8+7)
		vshim.SetVNow(epoch)
		var t *c05Target
		isCache := r.chance(0.5)
		desc := ""
		if isCache {
			sp := cacheSpec{Flavor: pick(r, cacheFlavors), Ctor: "New", OptMask: 1 | 2, DefExp: time.Hour, Interval: 0, NKeys: 4096}
			t = cacheTarget(newCache(sp), r.chance(0.3))
		} else {
			sp := mapSpec{Flavor: pick(r, mapFlavors), Hint: pick(r, []int{noHint, 0, 200}), NKeys: 4096}
			if sp.Flavor != "Map" && r.chance(0.5) {
				sp.Hasher = pick(r, hasherModes)
			}
			t = mapTarget(newMap(sp))
			desc = specName(sp)
		}
		method := pick(r, []string{"getOrSet", "getOrCompute", "getOrCompute", "swap", "compute", "compute", "refresh"})
		if method == "refresh" && !isCache {
			method = "compute"
		}
		start := pick(r, []string{"absent", "live", "expired"})
		if !isCache && start == "expired" {
			start = "absent"
		}
		k := r.between(2, 16)
		level := pick(r, []int{0, 1, 2, 2, 3})
		procs := pick(r, []int{1, 2, 4, 16, 16})
		polling := r.chance(0.5)
		focus := vshim.NKinds
		if r.chance(0.4) {
			focus = vshim.Kind(r.intn(int(vshim.NKinds)))
		}
		// prefill so that the fillers cross a grow threshold during the race
		pre := pick(r, []int{0, 40, 66, 70, 140})
		nfill := pick(r, []int{0, 20, 60, 200})
		for f := 0; f < pre; f++ {
			t.store(1000+f, nextVal(1000+f))
		}
		const key = 0
		var initial any
		switch start {
		case "live":
			initial = mkVal(key, 100)
			if method != "compute" {
				initial = nextVal(key)
			}
			t.store(key, initial)
		case "expired":
			t.storeExpired(key, nextVal(key))
		}
		desc = fmt.Sprintf("%s %s method=%s start=%s k=%d pre=%d fill=%d level=%d procs=%d polling=%v", t.name, desc, method, start, k, pre, nfill, level, procs, polling)
		logCase("atomic round %d: %s", i, desc)
		g0 := t.growths()
		mode := vshim.MCount | vshim.MBudget
		if level > 0 {
			mode |= vshim.MPerturb
		}
		if polling {
			mode |= vshim.MPoll
		}
		vshim.SetPerturb(level, focus)
		oldProcs := runtime.GOMAXPROCS(procs)
		vshim.ResetLive()
		vshim.SetMode(mode)
		outs := make([]racerOut, k)
		calls := make([]int64, k)
		rets := make([]int64, k)
		var wg, fwg sync.WaitGroup
		startCh := make(chan struct{})
		for w := 0; w < k; w++ {
			wg.Add(1)
			go func(w int) {
				defer wg.Done()
				o := &outs[w]
				mine := nextVal(key)
				<-startCh
				calls[w] = tick()
				switch method {
				case "getOrSet":
					o.v, o.loaded = t.getOrSet(key, mine)
				case "getOrCompute":
					o.v, o.loaded = t.getOrCompute(key, func() any { atomic.AddInt32(&o.calls, 1); return mine })
				case "swap":
					o.v, o.loaded = t.swap(key, mine)
					o.old = mine
				case "compute":
					o.v, o.loaded = t.compute(key, func(old any, loaded bool) (any, bool) {
						atomic.AddInt32(&o.calls, 1)
						o.old, o.oldOK = old, loaded
						id := int64(100)
						if loaded {
							id = old.(val).ID
						}
						return mkVal(key, id+1), false
					})
				case "refresh":
					o.v, o.loaded = t.refresh(key)
				}
				rets[w] = tick()
				vshim.Progress()
			}(w)
		}
		// bucket-mate writers / fillers (never touch `key`)
		for f := 0; f < 2; f++ {
			fwg.Add(1)
			go func(f int) {
				defer fwg.Done()
				<-startCh
				for j := f; j < nfill; j += 2 {
					t.store(2000+j, nextVal(2000+j))
					vshim.Progress()
				}
				for j := 1 + f; j < 12; j += 2 {
					t.store(j, nextVal(j))
					t.del(j)
					vshim.Progress()
				}
			}(f)
		}
		close(startCh)
		wg.Wait()
		fwg.Wait()
		vshim.SetMode(0)
		runtime.GOMAXPROCS(oldProcs)
		grew := t.growths() - g0
		final, finalOK := t.load(key)
		res.Evaluations++
		res.count("method:"+method+"/"+start, 1)
		res.count("racers", int64(k))
		if grew > 0 {
			res.count("rounds_with_grow_during_race", 1)
		}
		// overlap / fingerprint
		type ev struct {
			t int64
			w int
			r bool
		}
		var evs []ev
		for w := 0; w < k; w++ {
			evs = append(evs, ev{calls[w], w, false}, ev{rets[w], w, true})
		}
		sort.Slice(evs, func(x, y int) bool { return evs[x].t < evs[y].t })
		fp := newFP()
		fp.addStr(method + start + t.name)
		open, overlapped := 0, false
		for _, e := range evs {
			x := uint64(e.w) << 1
			if e.r {
				x |= 1
				open--
			} else {
				open++
				if open > 1 {
					overlapped = true
				}
			}
			fp.add(x)
		}
		if overlapped {
			res.nontrivial(fp.sum())
			res.count("rounds_with_overlap", 1)
		}
		if res.Evaluations <= 2 {
			res.sample(map[string]any{"round": i, "desc": desc, "results": fmt.Sprintf("%+v", outs), "final": fmtVal(final)})
		}
		bad := func(sig, msg string) {
			res.violate(violation{Class: "atomicity", Sig: sig, Msg: t.name + ": " + msg,
				Case: map[string]any{"case_index": i, "desc": desc, "results": fmt.Sprintf("%+v", outs), "final": fmtVal(final), "grew": grew}})
		}
		switch method {
		case "getOrSet", "getOrCompute":
			stored := 0
			var theV any
			for w := range outs {
				o := &outs[w]
				if !o.loaded {
					stored++
				}
				if w == 0 {
					theV = o.v
				} else if o.v != theV {
					bad(method+" racers return different values", fmt.Sprintf("racer 0 got %s, racer %d got %s", fmtVal(theV), w, fmtVal(o.v)))
				}
				if method == "getOrCompute" {
					want := int32(0)
					if !o.loaded {
						want = 1
					}
					if o.calls != want {
						bad(fmt.Sprintf("getOrCompute valueFn invoked %d times for loaded=%v", o.calls, o.loaded), fmt.Sprintf("racer %d: valueFn calls=%d, loaded=%v", w, o.calls, o.loaded))
					}
				}
			}
			wantStored := 1
			if start == "live" {
				wantStored = 0
				if theV != initial {
					bad(method+" on a live key does not return the live value", fmt.Sprintf("got %s, live value %s", fmtVal(theV), fmtVal(initial)))
				}
			}
			if stored != wantStored {
				bad(fmt.Sprintf("%s on %s key: %d callers report loaded=false", method, start, stored), fmt.Sprintf("%d of %d racers stored (want %d)", stored, k, wantStored))
			}
			if !finalOK || final != theV {
				bad(method+": final value differs from what the racers returned", fmt.Sprintf("final (%s,%v), racers got %s", fmtVal(final), finalOK, fmtVal(theV)))
			}
		case "swap":
			// returned olds (where loaded) + final must be a permutation of initial ∪ written
			seen := map[any]int{}
			notLoaded := 0
			for w := range outs {
				if outs[w].loaded {
					seen[outs[w].v]++
				} else {
					notLoaded++
					if outs[w].v != outs[w].old {
						bad("swap reports not-loaded but returns a foreign value", fmt.Sprintf("racer %d got (%s,false), wrote %s", w, fmtVal(outs[w].v), fmtVal(outs[w].old)))
					}
				}
			}
			seen[final]++
			wantNL := 1
			if start == "live" {
				wantNL = 0
				if seen[initial] != 1 {
					bad("swap chain loses or duplicates the initial value", fmt.Sprintf("initial %s observed %d times", fmtVal(initial), seen[initial]))
				}
			}
			if notLoaded != wantNL {
				bad(fmt.Sprintf("swap on %s key: %d callers report loaded=false", start, notLoaded), fmt.Sprintf("want %d", wantNL))
			}
			for w := range outs {
				if seen[outs[w].old] != 1 {
					bad("swap chain loses or duplicates a written value (lost update)", fmt.Sprintf("value %s written by racer %d observed %d times among returned olds + final", fmtVal(outs[w].old), w, seen[outs[w].old]))
				}
			}
		case "compute":
			base := int64(100)
			olds := map[int64]int{}
			for w := range outs {
				o := &outs[w]
				if o.calls != 1 {
					bad(fmt.Sprintf("Compute valueFn invoked %d times", o.calls), fmt.Sprintf("racer %d", w))
					continue
				}
				id := int64(-1)
				if o.oldOK {
					id = o.old.(val).ID
				} else if o.old != t.zero {
					bad("Compute hands a non-zero old value with loaded=false", fmt.Sprintf("racer %d saw (%s,false)", w, fmtVal(o.old)))
				}
				olds[id]++
				if !o.loaded || o.v != mkVal(key, maxi64(id, 100)+1) {
					bad("Compute returns something else than the value it stored", fmt.Sprintf("racer %d saw old id %d, got (%s,%v)", w, id, fmtVal(o.v), o.loaded))
				}
			}
			// expected observed olds: start live(ID 0): {0..k-1}; start absent/expired: {-1(absent),1..k-1}
			for j := 0; j < k; j++ {
				id := int64(j) + base
				if start != "live" && j == 0 {
					id = -1
				}
				if olds[id] != 1 {
					bad("concurrent Compute increments lose an update", fmt.Sprintf("old id %d observed %d times (k=%d, start=%s): %v", id, olds[id], k, start, olds))
					break
				}
			}
			if !finalOK || final != mkVal(key, 100+int64(k)) {
				bad("concurrent Compute increments: wrong final value", fmt.Sprintf("final (%s,%v), want id %d", fmtVal(final), finalOK, 100+k))
			}
		case "refresh":
			for w := range outs {
				o := &outs[w]
				if start == "live" {
					if !o.loaded || o.v != initial {
						bad("GetAndRefresh on a live key misses", fmt.Sprintf("racer %d got (%s,%v)", w, fmtVal(o.v), o.loaded))
					}
				} else if o.loaded || o.v != t.zero {
					bad("GetAndRefresh on an absent/expired key returns a value", fmt.Sprintf("racer %d got (%s,%v)", w, fmtVal(o.v), o.loaded))
				}
			}
			if start == "live" && (!finalOK || final != initial) {
				bad("GetAndRefresh racers lose the value", fmt.Sprintf("final (%s,%v)", fmtVal(final), finalOK))
			}
		}
	}
}

func maxi64(a, b int64) int64 {
	if a > b {
		return a
	}
	return b
}
