#!/bin/bash
HERE="$(cd "$(dirname "$0")" && pwd)"
# usage: seedtest.sh <patch.diff> <PROP> [tier] [more props...]
# Applies the patch to a scratch copy of /repo and runs the given checks against it (VERIF_REPO).
P="$(realpath "$1")"; shift
M=$(mktemp -d /tmp/mut.XXXX)
rsync -a --exclude .git /repo/ $M/
if ! (cd $M && patch -p1 -s < "$P"); then echo "PATCH FAILED"; rm -rf $M; exit 9; fi
TIER=quick
for a in "$@"; do
  case $a in quick|thorough) TIER=$a;; esac
done
for prop in "$@"; do
  case $prop in quick|thorough) continue;; esac
  out=$(cd "$HERE" && VERIF_REPO=$M ./check $prop $TIER 2>&1)
  rc=$?
  echo "== $prop rc=$rc: $(echo "$out" | grep -m2 -A1 'VIOLATION\|OK \|INCONCLUSIVE' | tr '\n' ' ' | cut -c1-420)"
done
rm -rf $M
