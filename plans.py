"""Per-property job plans: which harness engines run, with which case counts,
for the quick and the thorough tier. Counts are case/round numbers (never time
budgets); VERIF_SEED seeds the generators."""


def striped(engine, n, n2, stripes, extra=None, **kw):
    jobs = []
    for s in range(stripes):
        args = ["-n", n, "-n2", n2, "-stripe", s, "-stripes", stripes]
        if extra:
            args += ["-extra", extra]
        jobs.append(dict(engine=engine, args=args, **kw))
    return jobs


def seq_plan(quick, thorough):
    def jobs(tier, cores):
        n, n2 = quick if tier == "quick" else thorough
        return striped("seq", n, n2, cores if tier == "thorough" else min(cores, 8))
    return jobs


SEQ_ASSUME = ["the virtual clock substituted for time.Now/Until is the only clock the library reads (vprep rewrites every selector)",
              "the executable TTL model (DESIGN.md appendix A) is the specification"]

PLANS = {
    "C01": dict(level="exploration", jobs=seq_plan((4000, 24), (200000, 400)), assumptions=SEQ_ASSUME, min_evaluations=100),
    "C09": dict(level="exploration", jobs=seq_plan((2000, 0), (200000, 0)), assumptions=SEQ_ASSUME, min_evaluations=100),
    "C12": dict(level="exploration", jobs=seq_plan((4000, 16), (200000, 300)), assumptions=SEQ_ASSUME, min_evaluations=100),
}
