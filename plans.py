"""Per-property job plans: which harness engines run, with which case counts,
for the quick and the thorough tier. Counts are case/round numbers (never time
budgets); VERIF_SEED seeds the generators."""


def striped(engine, n, n2, stripes, extra=None, **kw):
    jobs = []
    for s in range(stripes):
        args = ["-n", n, "-n2", n2, "-stripe", s, "-stripes", stripes]
        if extra:
            args += ["-extra", extra]
        jobs.append(dict(engine=engine, args=args, **kw))
    return jobs


# The thorough case counts written below are scaled by this factor: one complete
# thorough pass over all sixteen properties has to fit into a few hours on 16 cores.
THOROUGH_SCALE = 0.4


def _scaled(tier, quick, thorough):
    if tier == "quick":
        return quick
    n, n2 = thorough
    if n >= 1000:
        n = int(n * THOROUGH_SCALE)
    return n, n2


def seq_plan(quick, thorough):
    def jobs(tier, cores):
        n, n2 = _scaled(tier, quick, thorough)
        return striped("seq", n, n2, cores if tier == "thorough" else min(cores, 8))
    return jobs


SEQ_ASSUME = ["the virtual clock substituted for time.Now/Until is the only clock the library reads (vprep rewrites every selector)",
              "the executable TTL model (DESIGN.md appendix A) is the specification"]

PLANS = {
    "C01": dict(level="exploration", jobs=seq_plan((4000, 24), (200000, 400)), assumptions=SEQ_ASSUME, min_evaluations=100),
    "C09": dict(level="exploration", jobs=seq_plan((2000, 0), (200000, 0)), assumptions=SEQ_ASSUME, min_evaluations=100),
    "C12": dict(level="exploration", jobs=seq_plan((4000, 16), (200000, 300)), assumptions=SEQ_ASSUME, min_evaluations=100),
}


def simple(engine, quick, thorough, extra=None, stripes_q=8, **kw):
    def jobs(tier, cores):
        n, n2 = _scaled(tier, quick, thorough)
        return striped(engine, n, n2, cores if tier == "thorough" else min(cores, stripes_q), extra, **kw)
    return jobs


def multi(*plans):
    def jobs(tier, cores):
        out = []
        for p in plans:
            out += p(tier, cores)
        return out
    return jobs


KEY_TYPES = ["string", "int", "int8", "int16", "int32", "int64", "uint", "uint8", "uint16", "uint32", "uint64", "uintptr",
             "float32", "float64", "complex64", "complex128", "bool", "*int", "unsafe.Pointer", "chan int", "[0]int", "[4]byte",
             "[3]string", "struct{}", "padded", "strF", "nested", "ptrF", "ifaceF", "any", "fmt.Stringer", "same-name-local-types"]


def keys_jobs(tier, cores):
    n, n2 = (200, 100) if tier == "quick" else (10000, 100)
    return [dict(engine="keys", args=["-n", n, "-n2", n2, "-extra", t]) for t in KEY_TYPES]


CONC_ASSUME = ["schedules are sampled (perturbation at every shim point, GOMAXPROCS 1..16), not enumerated",
               "tickets taken at the client boundary from one atomic counter order the recorded calls",
               "the sequential models of DESIGN.md appendix A are the specification"]

PLANS.update({
    "C02": dict(level="exploration", jobs=simple("linzcache", (3000, 0), (200000, 0)), assumptions=CONC_ASSUME, min_evaluations=100, inconclusive_tolerance=0.02),
    "C03": dict(level="exploration", jobs=simple("linzmap", (4000, 0), (300000, 0)), assumptions=CONC_ASSUME, min_evaluations=100, inconclusive_tolerance=0.02),
    "C04": dict(level="exploration", jobs=simple("linzmap", (4000, 0), (300000, 0)), assumptions=CONC_ASSUME, min_evaluations=100, inconclusive_tolerance=0.02),
    "C05": dict(level="exploration", jobs=simple("atomic", (8000, 0), (300000, 0)), assumptions=CONC_ASSUME, min_evaluations=100),
    "C06": dict(level="exploration", jobs=multi(seq_plan((3000, 0), (100000, 0)), simple("linzcache", (3000, 0), (150000, 0))), assumptions=SEQ_ASSUME + CONC_ASSUME, min_evaluations=100),
    "C10": dict(level="exploration", jobs=keys_jobs, assumptions=["the builtin map[K]int is the reference for Go key equality", "NaN keys and unhashable dynamic values are outside the input domain"], min_evaluations=100),
    "C11": dict(level="exploration", jobs=multi(simple("seqmap", (1200, 0), (60000, 0)), seq_plan((600, 6), (40000, 200))), assumptions=SEQ_ASSUME, min_evaluations=100),
    "C12": dict(level="exploration", jobs=multi(seq_plan((3000, 12), (150000, 300)), simple("seqmap", (800, 0), (50000, 0))), assumptions=SEQ_ASSUME, min_evaluations=100),
})


def race_jobs(tier, cores):
    n, n2, stripes = (1, 100000, 4) if tier == "quick" else (3, 400000, 8)
    jobs = []
    for extra in ("none", "perturb"):
        jobs += striped("racestress", n, n2, stripes, extra, race=True, timeout=7200)
    return jobs


PLANS.update({
    "C08": dict(level="exploration", jobs=multi(simple("sizeq", (3000, 0), (200000, 0)), seq_plan((1500, 8), (60000, 200)), simple("seqmap", (400, 0), (30000, 0))), assumptions=SEQ_ASSUME + CONC_ASSUME, min_evaluations=100),
    "C14": dict(level="exploration", jobs=race_jobs, parallel=8, assumptions=["the Go race detector (happens-before) is the oracle; it sees only accesses that execute", "the shim keeps no shared state in race builds (state_race.go), so it adds no synchronisation edge"], min_evaluations=4),
    "C15": dict(level="exploration", jobs=simple("janitor", (2, 60), (40, 1500), stripes_q=4), exhaustive=True, assumptions=["fake tickers registered through the substituted time.NewTicker stand for the real ticker wiring (the race engine of C14 runs the real one)", "bounded cleanup is decided as: gone after the pass of the second tick after expiry"], min_evaluations=50),
    "C16": dict(level="fault_enumeration", jobs=simple("stall", (1, 0), (40, 0)), assumptions=["stall points are the shim points (every atomic / lock / wait operation) of the executions produced; one writer stalled at a time", "waiting is made observable by polling locks: a reader that would block spins through counted steps"], min_evaluations=100),
})

PLANS.update({
    "C07": dict(level="exploration", jobs=multi(simple("traverse", (3000, 0), (200000, 0)), seq_plan((1500, 8), (60000, 200)), simple("seqmap", (400, 0), (30000, 0))), assumptions=SEQ_ASSUME + CONC_ASSUME, min_evaluations=100),
    "C13": dict(level="exploration", jobs=simple("term", (2400, 0), (150000, 0)), assumptions=["termination is decided as bounded progress: a per-call budget of 2^24 shim steps (single goroutine) or 2^28 steps without any call returning (stress), with polling locks so that every wait consumes steps; blocked-forever goroutines trip the runtime deadlock detector (no timers in the process)", "valueFn re-entrancy is excluded as the property says"], min_evaluations=100),
})


# concurrent components for properties whose sequential statement can also be broken only under an interleaving
PLANS["C01"]["jobs"] = multi(seq_plan((4000, 24), (200000, 400)), simple("linzcache", (2000, 0), (100000, 0)))
PLANS["C01"]["assumptions"] = SEQ_ASSUME + CONC_ASSUME
PLANS["C09"]["jobs"] = multi(seq_plan((2000, 0), (200000, 0)), simple("linzcache", (2000, 0), (100000, 0)))
PLANS["C09"]["assumptions"] = SEQ_ASSUME + CONC_ASSUME
PLANS["C12"]["jobs"] = multi(seq_plan((3000, 12), (150000, 300)), simple("seqmap", (800, 0), (50000, 0)), simple("linzmap", (1500, 0), (100000, 0)), simple("linzcache", (1000, 0), (80000, 0)))
PLANS["C12"]["assumptions"] = SEQ_ASSUME + CONC_ASSUME
PLANS["C06"]["jobs"] = multi(seq_plan((3000, 8), (100000, 200)), simple("linzcache", (3000, 0), (150000, 0)), simple("janitor", (1, 0), (20, 0), stripes_q=2), simple("term", (300, 0), (20000, 0), stripes_q=4))

# C10: keys that collide completely must also stay distinct under concurrent use
PLANS["C10"]["jobs"] = multi(keys_jobs, simple("linzmap", (1500, 0), (60000, 0), stripes_q=4))
PLANS["C10"]["assumptions"] = PLANS["C10"]["assumptions"] + CONC_ASSUME

# C11: "no entry is lost, duplicated or resurrected by a grow, a shrink or a Clear" also under concurrent use
PLANS["C11"]["jobs"] = multi(simple("seqmap", (1200, 0), (60000, 0)), seq_plan((600, 6), (40000, 200)), simple("linzmap", (3000, 0), (100000, 0)))
PLANS["C11"]["assumptions"] = SEQ_ASSUME + CONC_ASSUME


# two-goroutine schedule enumeration (pairstall): deterministic detection of check-order / publish-order / lock-skipping bugs
def pair_jobs(tier, cores):
    n = 1 if tier == "quick" else 3
    return striped("pairstall", n, 0, min(cores, 12))


for _p in ("C01", "C02", "C03", "C04", "C05", "C11", "C12"):
    PLANS[_p]["jobs"] = multi(PLANS[_p]["jobs"], pair_jobs)

# C12: the twins must report equal counts after concurrent use (quiescent Size/Count exactness on the twin flavours)
PLANS["C12"]["jobs"] = multi(PLANS["C12"]["jobs"], simple("sizeq", (160, 0), (6000, 0), stripes_q=8))


# same-key operation pairs, enumerated (oppair): first call parked at each of its steps, second call runs, porcupine on the tiny history
def oppair_jobs(tier, cores):
    return striped("oppair", 1, 0, 8)


for _p in ("C01", "C02", "C03", "C04", "C05", "C06", "C08", "C09", "C12"):
    PLANS[_p]["jobs"] = multi(PLANS[_p]["jobs"], oppair_jobs)

# C13: the deterministic schedule enumerations also detect calls that never return
PLANS["C13"]["jobs"] = multi(PLANS["C13"]["jobs"], pair_jobs, oppair_jobs)

# C05: user-function invocation counts across grow-triggering retries, sequentially (deterministic)
PLANS["C05"]["jobs"] = multi(PLANS["C05"]["jobs"], simple("seqmap", (300, 0), (20000, 0), stripes_q=4), seq_plan((400, 8), (20000, 100)))


# code paths that only exist for very large tables (one sequential pass over >2^17 buckets per flavour)
def huge_jobs(tier, cores):
    return striped("seqmap", 1, 0, 3, "huge")


for _p in ("C03", "C04", "C11"):
    PLANS[_p]["jobs"] = multi(PLANS[_p]["jobs"], huge_jobs)

PLANS["C02"]["jobs"] = multi(PLANS["C02"]["jobs"], seq_plan((1500, 0), (60000, 0)))


# processes that START with GOMAXPROCS=1 (code that sizes or specialises itself from the
# number of CPUs at package initialisation takes its single-processor paths; the harness
# still raises GOMAXPROCS for the concurrent phases, so the goroutines do run in parallel)
def uniproc_jobs(engine, quick_n, thorough_n, stripes=2):
    def jobs(tier, cores):
        n = quick_n if tier == "quick" else thorough_n
        return striped(engine, n, 0, stripes, env={"GOMAXPROCS": "1"})
    return jobs


PLANS["C05"]["jobs"] = multi(PLANS["C05"]["jobs"], uniproc_jobs("atomic", 1500, 30000))
PLANS["C03"]["jobs"] = multi(PLANS["C03"]["jobs"], uniproc_jobs("linzmap", 500, 10000))
PLANS["C04"]["jobs"] = multi(PLANS["C04"]["jobs"], uniproc_jobs("linzmap", 500, 10000))
PLANS["C02"]["jobs"] = multi(PLANS["C02"]["jobs"], uniproc_jobs("linzcache", 400, 8000))

# C13: shrink requests racing each other (a request that arrives while a shrink runs, an abandoned shrink) must not strand anybody
PLANS["C13"]["jobs"] = multi(PLANS["C13"]["jobs"], simple("sizeq", (240, 0), (10000, 0), stripes_q=8))

# C07: what a traversal shows after two overlapping calls on one key (expired entries must stay hidden)
PLANS["C07"]["jobs"] = multi(PLANS["C07"]["jobs"], oppair_jobs)
