#!/bin/bash
# usage: seedverify.sh <seed dir containing patch.diff + demo_test.go> [race]
# Confirms in a scratch worktree: patch applies, suite passes with it, demo fails with it, demo passes without it.
D="$1"; RACE="$2"
export GOFLAGS=-mod=mod GOPROXY=off GOSUMDB=off GOTOOLCHAIN=local
W=$(mktemp -d /tmp/sv.XXXX); rmdir $W
git -C /repo worktree add -q --detach $W HEAD || exit 9
cleanup() { git -C /repo worktree remove --force $W 2>/dev/null; rm -rf $W; }
trap cleanup EXIT
cd $W
git apply "$D/patch.diff" || { echo "RESULT $D apply=FAIL"; exit 1; }
go build ./... || { echo "RESULT $D build=FAIL"; exit 1; }
s1=PASS; timeout 900 go test -vet=off -count=1 ./... > $W/suite1.log 2>&1 || s1=FAIL
s2=PASS; timeout 900 go test -vet=off -count=1 ./... > $W/suite2.log 2>&1 || s2=FAIL
DEMO=$(ls "$D"/*_test.go 2>/dev/null | head -1)
if [ -z "$DEMO" ]; then echo "RESULT $D suite=$s1/$s2 demo=NONE"; exit 1; fi
cp "$DEMO" $W/zz_demo_test.go
NAMES=$(grep -ho '^func Test[A-Za-z0-9_]*' $W/zz_demo_test.go | sed 's/func //' | paste -sd'|')
RF=""; [ "$RACE" = race ] && RF="-race"
dm=PASS; timeout 900 go test $RF -vet=off -count=1 -run "^($NAMES)\$" . > $W/demo_mut.log 2>&1 || dm=FAIL
git checkout -q -- . 
dc=PASS; timeout 900 go test $RF -vet=off -count=1 -run "^($NAMES)\$" . > $W/demo_clean.log 2>&1 || dc=FAIL
echo "RESULT $D suite_with_mutant=$s1/$s2 demo_with_mutant=$dm demo_clean=$dc tests=$NAMES"
if [ "$dm" != FAIL ] || [ "$dc" != PASS ]; then tail -5 $W/demo_mut.log $W/demo_clean.log; fi
[ "$s1" = FAIL ] && tail -15 $W/suite1.log
exit 0
