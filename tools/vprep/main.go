// vprep rewrites a scratch copy of fufuok/cache so that every synchronisation,
// clock and scheduler selector (sync/atomic.*, sync.Mutex/Cond/…, time.Now/…,
// runtime.Gosched) goes through the injected shim package zzverif/vshim.
//
// The rewrite is position preserving: a selector `pkg.Name` is replaced by
// `vshim.Name` on the same line, the shim import is appended to the `package`
// line and keep-alive declarations for now-unused imports go to the end of the
// file, so line numbers in stack traces and race reports are those of /repo.
//
// Usage: vprep <dir> [<dir>...]   (rewrites non-test .go files in place)
package main

import (
	"bytes"
	"fmt"
	"go/ast"
	"go/parser"
	"go/token"
	"os"
	"path/filepath"
	"sort"
	"strconv"
	"strings"
)

const shimImport = "github.com/fufuok/cache/zzverif/vshim"
const shimName = "zzvshim"

var table = map[string]map[string]bool{
	"sync/atomic": set(
		"AddInt32", "AddInt64", "AddUint32", "AddUint64", "AddUintptr",
		"AndInt32", "AndInt64", "AndUint32", "AndUint64", "AndUintptr",
		"OrInt32", "OrInt64", "OrUint32", "OrUint64", "OrUintptr",
		"CompareAndSwapInt32", "CompareAndSwapInt64", "CompareAndSwapUint32",
		"CompareAndSwapUint64", "CompareAndSwapUintptr", "CompareAndSwapPointer",
		"LoadInt32", "LoadInt64", "LoadUint32", "LoadUint64", "LoadUintptr", "LoadPointer",
		"StoreInt32", "StoreInt64", "StoreUint32", "StoreUint64", "StoreUintptr", "StorePointer",
		"SwapInt32", "SwapInt64", "SwapUint32", "SwapUint64", "SwapUintptr", "SwapPointer",
		"Value", "Int32", "Int64", "Uint32", "Uint64", "Uintptr", "Bool", "Pointer",
	),
	"sync":    set("Mutex", "RWMutex", "Cond", "NewCond"),
	"time":    set("Now", "Since", "Until", "Sleep", "NewTicker", "Ticker", "NewTimer", "Timer", "After", "AfterFunc", "Tick"),
	"runtime": set("Gosched"),
}

// A selector kept alive for each package so that the import stays used.
var keep = map[string]string{
	"sync/atomic": "var _ = %s.AddInt32",
	"sync":        "var _ %s.WaitGroup",
	"time":        "var _ = %s.Unix",
	"runtime":     "var _ = %s.GOMAXPROCS",
}

func set(names ...string) map[string]bool {
	m := map[string]bool{}
	for _, n := range names {
		m[n] = true
	}
	return m
}

type edit struct {
	off, end int
	text     string
}

func main() {
	if len(os.Args) < 2 {
		fmt.Fprintln(os.Stderr, "usage: vprep <dir>...")
		os.Exit(2)
	}
	total := 0
	for _, dir := range os.Args[1:] {
		ents, err := os.ReadDir(dir)
		if err != nil {
			fmt.Fprintln(os.Stderr, err)
			os.Exit(2)
		}
		for _, e := range ents {
			n := e.Name()
			if e.IsDir() || !strings.HasSuffix(n, ".go") || strings.HasSuffix(n, "_test.go") || strings.HasPrefix(n, "zz_verif") {
				continue
			}
			c, err := rewrite(filepath.Join(dir, n))
			if err != nil {
				fmt.Fprintf(os.Stderr, "vprep: %s: %v\n", n, err)
				os.Exit(1)
			}
			total += c
		}
	}
	fmt.Printf("vprep: %d selectors substituted\n", total)
}

func rewrite(path string) (int, error) {
	src, err := os.ReadFile(path)
	if err != nil {
		return 0, err
	}
	fset := token.NewFileSet()
	f, err := parser.ParseFile(fset, path, src, parser.ParseComments)
	if err != nil {
		return 0, err
	}
	// local name -> import path, for the packages we intercept
	local := map[string]string{}
	for _, im := range f.Imports {
		p, _ := strconv.Unquote(im.Path.Value)
		if _, ok := table[p]; !ok {
			continue
		}
		name := filepath.Base(p)
		if im.Name != nil {
			name = im.Name.Name
		}
		if name == "_" || name == "." {
			continue
		}
		local[name] = p
	}
	if len(local) == 0 {
		return 0, nil
	}
	var edits []edit
	used := map[string]bool{}
	ast.Inspect(f, func(n ast.Node) bool {
		sel, ok := n.(*ast.SelectorExpr)
		if !ok {
			return true
		}
		id, ok := sel.X.(*ast.Ident)
		if !ok || id.Obj != nil { // Obj != nil: a local object shadows the package name
			return true
		}
		p, ok := local[id.Name]
		if !ok || !table[p][sel.Sel.Name] {
			return true
		}
		off := fset.Position(id.Pos()).Offset
		end := fset.Position(id.End()).Offset
		edits = append(edits, edit{off, end, shimName})
		used[id.Name] = true
		return true
	})
	if len(edits) == 0 {
		return 0, nil
	}
	// import on the package line
	pkgEnd := fset.Position(f.Name.End()).Offset
	edits = append(edits, edit{pkgEnd, pkgEnd, "; import " + shimName + " " + strconv.Quote(shimImport)})
	sort.Slice(edits, func(i, j int) bool { return edits[i].off < edits[j].off })
	var out bytes.Buffer
	last := 0
	for _, e := range edits {
		out.Write(src[last:e.off])
		out.WriteString(e.text)
		last = e.end
	}
	out.Write(src[last:])
	if !bytes.HasSuffix(out.Bytes(), []byte("\n")) {
		out.WriteByte('\n')
	}
	names := make([]string, 0, len(used))
	for n := range used {
		names = append(names, n)
	}
	sort.Strings(names)
	for _, n := range names {
		fmt.Fprintf(&out, keep[local[n]]+"\n", n)
	}
	return len(edits) - 1, os.WriteFile(path, out.Bytes(), 0o644)
}
