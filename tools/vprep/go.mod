module vprep

go 1.19
