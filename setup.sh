#!/bin/bash
# Build the framework from files on disk only (offline) and warm the Go build cache.
set -e
cd "$(dirname "$0")"
export GOFLAGS=-mod=mod GOPROXY=off GOSUMDB=off GOTOOLCHAIN=local
mkdir -p bin evidence replays
(cd tools/vprep && GOFLAGS= go build -o ../../bin/vprep .)
S=$(mktemp -d)
trap 'rm -rf "$S" "${S}_race"' EXIT
./lib_prep.sh "$S" || { echo "setup: plain build failed"; exit 1; }
./lib_prep.sh "${S}_race" race || { echo "setup: race build failed"; exit 1; }
echo "setup ok"
