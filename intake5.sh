#!/bin/bash
# usage: intake5.sh <PROP>   — copies /tmp/seed5-<PROP>/seed/{1,2} to seeded/<PROP>-{9,10}, verifies, runs own-property quick check
P=$1
cd /verif
for i in 1 2; do
  src=/tmp/seed5-$P/seed/$i
  [ -f $src/patch.diff ] || { echo "$P/$i: no patch"; continue; }
  id=$P-$((i+8))
  mkdir -p seeded/$id
  cp $src/patch.diff seeded/$id/
  cp $src/README.md seeded/$id/ 2>/dev/null
  for f in $src/*_test.go $src/*.go; do [ -f "$f" ] && cp "$f" seeded/$id/; done
  race=""; [ $P = C14 ] && race=race
  echo "[$id] $(./seedverify.sh /verif/seeded/$id $race 2>&1 | grep -A12 RESULT | cut -c1-300)"
  echo "[$id] $(./seedtest.sh seeded/$id/patch.diff $P 2>&1 | cut -c1-330)"
done
