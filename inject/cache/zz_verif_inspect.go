//go:build verif && !noinspect && !noxsyncapi

package cache

import "github.com/fufuok/cache/internal/xsync"

// Optional (reads unexported fields; the pipeline rebuilds with -tags noinspect
// if this stops compiling after a refactoring).

const VerifInspect = true

// VerifCacheStats returns the statistics of the table inside a Cache.
func VerifCacheStats(c Cache) (xsync.MapStats, bool) {
	w, ok := c.(*xsyncMapWrapper)
	if !ok {
		return xsync.MapStats{}, false
	}
	return VerifStats(w.items)
}

// VerifCacheOfStats returns the statistics of the table inside a CacheOf.
func VerifCacheOfStats[K comparable, V any](c CacheOf[K, V]) (xsync.MapStats, bool) {
	w, ok := c.(*xsyncMapOfWrapper[K, V])
	if !ok {
		return xsync.MapStats{}, false
	}
	return VerifStats(w.items)
}

// VerifBucketIndex returns the root bucket index of key in the current table.
func VerifBucketIndex(m Map, key string) int {
	if x, ok := m.(*xsync.Map); ok {
		return x.VerifBucketIndex(key)
	}
	return -1
}

// VerifBucketIndexOf is VerifBucketIndex for MapOf.
func VerifBucketIndexOf[K comparable, V any](m MapOf[K, V], key K) int {
	if x, ok := m.(*xsync.MapOf[K, V]); ok {
		return x.VerifBucketIndex(key)
	}
	return -1
}

// VerifLockedBuckets counts root buckets whose lock is held (quiescent use).
func VerifLockedBuckets(m interface{}) int {
	if x, ok := m.(interface{ VerifLockedBuckets() int }); ok {
		return x.VerifLockedBuckets()
	}
	return -1
}

// VerifStructure runs the structural walk (quiescent use) and returns problems.
func VerifStructure(m interface{}) []string {
	if x, ok := m.(interface{ VerifStructure() []string }); ok {
		return x.VerifStructure()
	}
	return nil
}
