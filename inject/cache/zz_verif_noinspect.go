//go:build verif && noinspect

package cache

import "github.com/fufuok/cache/internal/xsync"

const VerifInspect = false

func VerifCacheStats(c Cache) (xsync.MapStats, bool) { return xsync.MapStats{}, false }
func VerifCacheOfStats[K comparable, V any](c CacheOf[K, V]) (xsync.MapStats, bool) {
	return xsync.MapStats{}, false
}
func VerifBucketIndex(m Map, key string) int                              { return -1 }
func VerifBucketIndexOf[K comparable, V any](m MapOf[K, V], key K) int    { return -1 }
func VerifLockedBuckets(m interface{}) int                                { return -1 }
func VerifStructure(m interface{}) []string                               { return nil }
