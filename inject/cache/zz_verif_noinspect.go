//go:build verif && (noinspect || noxsyncapi)

package cache

const VerifInspect = false

func VerifCacheStats(c Cache) (VerifMapStats, bool) { return VerifMapStats{}, false }
func VerifCacheOfStats[K comparable, V any](c CacheOf[K, V]) (VerifMapStats, bool) {
	return VerifMapStats{}, false
}
func VerifBucketIndex(m Map, key string) int                           { return -1 }
func VerifBucketIndexOf[K comparable, V any](m MapOf[K, V], key K) int { return -1 }
func VerifLockedBuckets(m interface{}) int                             { return -1 }
func VerifStructure(m interface{}) []string                            { return nil }
