//go:build verif && noxsyncapi

package cache

// Second fallback of the /verif pipeline: the exported diagnostic API of the
// vendored xsync package (Stats, NewMapOfWithHasher, WithPresize) is not there any
// more. The harness still builds: statistics are unavailable and "custom hasher"
// maps fall back to the default hasher (reported in the evidence notes).

type VerifMapStats struct {
	RootBuckets  int
	TotalBuckets int
	EmptyBuckets int
	Capacity     int
	Size         int
	Counter      int
	CounterLen   int
	MinEntries   int
	MaxEntries   int
	TotalGrowths int64
	TotalShrinks int64
}

func VerifNewMapOfWithHasher[K comparable, V any](hasher func(K, uint64) uint64, sizeHint int) MapOf[K, V] {
	return NewMapOfPresized[K, V](sizeHint)
}

func VerifStats(m interface{}) (VerifMapStats, bool) { return VerifMapStats{}, false }
