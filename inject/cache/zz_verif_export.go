//go:build verif && !noxsyncapi

package cache

import "github.com/fufuok/cache/internal/xsync"

// Injected by /verif (never committed to the repository): exports that depend
// only on exported names of the vendored xsync package.

type VerifMapStats = xsync.MapStats

// VerifNewMapOfWithHasher exposes xsync.NewMapOfWithHasher to the harness.
func VerifNewMapOfWithHasher[K comparable, V any](hasher func(K, uint64) uint64, sizeHint int) MapOf[K, V] {
	return xsync.NewMapOfWithHasher[K, V](hasher, xsync.WithPresize(sizeHint))
}

// VerifStats returns the diagnostic statistics of a Map / MapOf.
func VerifStats(m interface{}) (xsync.MapStats, bool) {
	if s, ok := m.(interface{ Stats() xsync.MapStats }); ok {
		return s.Stats(), true
	}
	return xsync.MapStats{}, false
}
