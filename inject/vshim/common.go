//go:build verif

// Package vshim is injected into a scratch copy of fufuok/cache by the /verif
// pipeline. Every sync/atomic function, sync.Mutex/RWMutex/Cond method,
// time.Now/Since/Until/NewTicker/... call and runtime.Gosched of the library is
// redirected here by tools/vprep. Each wrapper runs point(kind) and then
// delegates to the real primitive, so atomicity, memory ordering and
// happens-before are exactly those of the real operation.
//
// Two variants of the bookkeeping exist: state_norace.go (step accounting,
// park points, polling locks, virtual clock, lock ledger) and state_race.go
// (perturbation only, no shared shim state whatsoever, so the shim adds no
// synchronisation edge that could hide a race from the detector).
package vshim

import (
	"math/rand/v2"
	"runtime"
	"sync"
	"sync/atomic"
	"time"
	"unsafe"
)

// Kind classifies shim points.
type Kind uint8

const (
	KLoad Kind = iota
	KStore
	KAdd
	KCAS
	KSwap
	KLock
	KLockSpin
	KUnlock
	KCondWait
	KCondSpin
	KBroadcast
	KSignal
	KNow
	KGosched
	KTicker
	KAfterStore
	KAfterUnlock
	KAfterCAS
	NKinds
)

var KindNames = [NKinds]string{"load", "store", "add", "cas", "swap", "lock", "lockspin", "unlock",
	"condwait", "condspin", "broadcast", "signal", "now", "gosched", "ticker", "afterstore", "afterunlock", "aftercas"}

// ---- perturbation (shared by both variants; uses only per-M PRNG state) ----

var (
	pLevel  int32          // 0 = off
	pShort  [NKinds]uint32 // probability (out of 65536) of a short pause at this kind
	pLong   uint32         // probability (out of 65536) of a long pause at any kind
	pLongK  [NKinds]uint32 // per kind (the focused kind gets a higher one)
	pLongMx uint32         = 3000
)

// SetPerturb configures perturbation. Must be called while no library code
// runs on other goroutines. focus<NKinds boosts one kind of shim point.
func SetPerturb(level int, focus Kind) {
	pLevel = int32(level)
	var base, long uint32
	switch level {
	case 0:
		base, long = 0, 0
	case 1:
		base, long = 65536/64, 65536/4096
	case 2:
		base, long = 65536/16, 65536/1024
	default:
		base, long = 65536/4, 65536/256
	}
	for i := range pShort {
		pShort[i] = base
	}
	// more weight between a slot update and what follows it
	pShort[KAfterStore] = base * 2
	pShort[KAfterUnlock] = base * 2
	pShort[KAdd] = base * 2
	pShort[KBroadcast] = base * 2
	for i := range pLongK {
		pLongK[i] = long
	}
	if focus < NKinds && level > 0 {
		// the focused kind of point pauses half of the time, and some are
		// long one (hundreds to thousands of yields): long enough for a whole table copy,
		// a Clear or several other calls to fit between two adjacent operations
		pShort[focus] = 65536 / 2
		pLongK[focus] = 65536 / 48
	}
	pLong = long
}

func perturb(k Kind) {
	if pLevel == 0 {
		return
	}
	r := rand.Uint32()
	if r&0xffff < pShort[k] {
		n := 1 + (r>>16)&7
		for i := uint32(0); i < n; i++ {
			runtime.Gosched()
		}
		return
	}
	if (r>>16)&0xffff < pLongK[k] {
		n := rand.Uint32() % pLongMx
		for i := uint32(0); i < n; i++ {
			runtime.Gosched()
		}
	}
}

// ---- sync/atomic functions ----

func AddInt32(p *int32, d int32) int32         { point(KAdd); return atomic.AddInt32(p, d) }
func AddInt64(p *int64, d int64) int64         { point(KAdd); return atomic.AddInt64(p, d) }
func AddUint32(p *uint32, d uint32) uint32     { point(KAdd); return atomic.AddUint32(p, d) }
func AddUint64(p *uint64, d uint64) uint64     { point(KAdd); return atomic.AddUint64(p, d) }
func AddUintptr(p *uintptr, d uintptr) uintptr { point(KAdd); return atomic.AddUintptr(p, d) }

func AndInt32(p *int32, m int32) int32         { point(KAdd); return atomic.AndInt32(p, m) }
func AndInt64(p *int64, m int64) int64         { point(KAdd); return atomic.AndInt64(p, m) }
func AndUint32(p *uint32, m uint32) uint32     { point(KAdd); return atomic.AndUint32(p, m) }
func AndUint64(p *uint64, m uint64) uint64     { point(KAdd); return atomic.AndUint64(p, m) }
func AndUintptr(p *uintptr, m uintptr) uintptr { point(KAdd); return atomic.AndUintptr(p, m) }
func OrInt32(p *int32, m int32) int32          { point(KAdd); return atomic.OrInt32(p, m) }
func OrInt64(p *int64, m int64) int64          { point(KAdd); return atomic.OrInt64(p, m) }
func OrUint32(p *uint32, m uint32) uint32      { point(KAdd); return atomic.OrUint32(p, m) }
func OrUint64(p *uint64, m uint64) uint64      { point(KAdd); return atomic.OrUint64(p, m) }
func OrUintptr(p *uintptr, m uintptr) uintptr  { point(KAdd); return atomic.OrUintptr(p, m) }

func CompareAndSwapInt32(p *int32, o, n int32) bool {
	point(KCAS)
	ok := atomic.CompareAndSwapInt32(p, o, n)
	casResult(ok)
	if ok {
		point(KAfterCAS)
	}
	return ok
}
func CompareAndSwapInt64(p *int64, o, n int64) bool {
	point(KCAS)
	ok := atomic.CompareAndSwapInt64(p, o, n)
	casResult(ok)
	if ok {
		point(KAfterCAS)
	}
	return ok
}
func CompareAndSwapUint32(p *uint32, o, n uint32) bool {
	point(KCAS)
	ok := atomic.CompareAndSwapUint32(p, o, n)
	casResult(ok)
	if ok {
		point(KAfterCAS)
	}
	return ok
}
func CompareAndSwapUint64(p *uint64, o, n uint64) bool {
	point(KCAS)
	ok := atomic.CompareAndSwapUint64(p, o, n)
	casResult(ok)
	if ok {
		point(KAfterCAS)
	}
	return ok
}
func CompareAndSwapUintptr(p *uintptr, o, n uintptr) bool {
	point(KCAS)
	ok := atomic.CompareAndSwapUintptr(p, o, n)
	casResult(ok)
	if ok {
		point(KAfterCAS)
	}
	return ok
}
func CompareAndSwapPointer(p *unsafe.Pointer, o, n unsafe.Pointer) bool {
	point(KCAS)
	ok := atomic.CompareAndSwapPointer(p, o, n)
	casResult(ok)
	if ok {
		point(KAfterCAS)
	}
	return ok
}

func LoadInt32(p *int32) int32                     { point(KLoad); return atomic.LoadInt32(p) }
func LoadInt64(p *int64) int64                     { point(KLoad); return atomic.LoadInt64(p) }
func LoadUint32(p *uint32) uint32                  { point(KLoad); return atomic.LoadUint32(p) }
func LoadUint64(p *uint64) uint64                  { point(KLoad); return atomic.LoadUint64(p) }
func LoadUintptr(p *uintptr) uintptr               { point(KLoad); return atomic.LoadUintptr(p) }
func LoadPointer(p *unsafe.Pointer) unsafe.Pointer { point(KLoad); return atomic.LoadPointer(p) }

func StoreInt32(p *int32, v int32)    { point(KStore); atomic.StoreInt32(p, v); point(KAfterStore) }
func StoreInt64(p *int64, v int64)    { point(KStore); atomic.StoreInt64(p, v); point(KAfterStore) }
func StoreUint32(p *uint32, v uint32) { point(KStore); atomic.StoreUint32(p, v); point(KAfterStore) }
func StoreUint64(p *uint64, v uint64) { point(KStore); atomic.StoreUint64(p, v); point(KAfterStore) }
func StoreUintptr(p *uintptr, v uintptr) {
	point(KStore)
	atomic.StoreUintptr(p, v)
	point(KAfterStore)
}
func StorePointer(p *unsafe.Pointer, v unsafe.Pointer) {
	point(KStore)
	atomic.StorePointer(p, v)
	point(KAfterStore)
}

func SwapInt32(p *int32, v int32) int32         { point(KSwap); return atomic.SwapInt32(p, v) }
func SwapInt64(p *int64, v int64) int64         { point(KSwap); return atomic.SwapInt64(p, v) }
func SwapUint32(p *uint32, v uint32) uint32     { point(KSwap); return atomic.SwapUint32(p, v) }
func SwapUint64(p *uint64, v uint64) uint64     { point(KSwap); return atomic.SwapUint64(p, v) }
func SwapUintptr(p *uintptr, v uintptr) uintptr { point(KSwap); return atomic.SwapUintptr(p, v) }
func SwapPointer(p *unsafe.Pointer, v unsafe.Pointer) unsafe.Pointer {
	point(KSwap)
	return atomic.SwapPointer(p, v)
}

// ---- sync/atomic types ----

type Value struct{ v atomic.Value }

func (x *Value) Load() any      { point(KLoad); return x.v.Load() }
func (x *Value) Store(v any)    { point(KStore); x.v.Store(v); point(KAfterStore) }
func (x *Value) Swap(v any) any { point(KSwap); return x.v.Swap(v) }
func (x *Value) CompareAndSwap(o, n any) bool {
	point(KCAS)
	ok := x.v.CompareAndSwap(o, n)
	casResult(ok)
	if ok {
		point(KAfterCAS)
	}
	return ok
}

type Int32 struct{ v atomic.Int32 }

func (x *Int32) Load() int32        { point(KLoad); return x.v.Load() }
func (x *Int32) Store(v int32)      { point(KStore); x.v.Store(v); point(KAfterStore) }
func (x *Int32) Swap(v int32) int32 { point(KSwap); return x.v.Swap(v) }
func (x *Int32) Add(d int32) int32  { point(KAdd); return x.v.Add(d) }
func (x *Int32) And(m int32) int32  { point(KAdd); return x.v.And(m) }
func (x *Int32) Or(m int32) int32   { point(KAdd); return x.v.Or(m) }
func (x *Int32) CompareAndSwap(o, n int32) bool {
	point(KCAS)
	ok := x.v.CompareAndSwap(o, n)
	casResult(ok)
	if ok {
		point(KAfterCAS)
	}
	return ok
}

type Int64 struct{ v atomic.Int64 }

func (x *Int64) Load() int64        { point(KLoad); return x.v.Load() }
func (x *Int64) Store(v int64)      { point(KStore); x.v.Store(v); point(KAfterStore) }
func (x *Int64) Swap(v int64) int64 { point(KSwap); return x.v.Swap(v) }
func (x *Int64) Add(d int64) int64  { point(KAdd); return x.v.Add(d) }
func (x *Int64) And(m int64) int64  { point(KAdd); return x.v.And(m) }
func (x *Int64) Or(m int64) int64   { point(KAdd); return x.v.Or(m) }
func (x *Int64) CompareAndSwap(o, n int64) bool {
	point(KCAS)
	ok := x.v.CompareAndSwap(o, n)
	casResult(ok)
	if ok {
		point(KAfterCAS)
	}
	return ok
}

type Uint32 struct{ v atomic.Uint32 }

func (x *Uint32) Load() uint32         { point(KLoad); return x.v.Load() }
func (x *Uint32) Store(v uint32)       { point(KStore); x.v.Store(v); point(KAfterStore) }
func (x *Uint32) Swap(v uint32) uint32 { point(KSwap); return x.v.Swap(v) }
func (x *Uint32) Add(d uint32) uint32  { point(KAdd); return x.v.Add(d) }
func (x *Uint32) And(m uint32) uint32  { point(KAdd); return x.v.And(m) }
func (x *Uint32) Or(m uint32) uint32   { point(KAdd); return x.v.Or(m) }
func (x *Uint32) CompareAndSwap(o, n uint32) bool {
	point(KCAS)
	ok := x.v.CompareAndSwap(o, n)
	casResult(ok)
	if ok {
		point(KAfterCAS)
	}
	return ok
}

type Uint64 struct{ v atomic.Uint64 }

func (x *Uint64) Load() uint64         { point(KLoad); return x.v.Load() }
func (x *Uint64) Store(v uint64)       { point(KStore); x.v.Store(v); point(KAfterStore) }
func (x *Uint64) Swap(v uint64) uint64 { point(KSwap); return x.v.Swap(v) }
func (x *Uint64) Add(d uint64) uint64  { point(KAdd); return x.v.Add(d) }
func (x *Uint64) And(m uint64) uint64  { point(KAdd); return x.v.And(m) }
func (x *Uint64) Or(m uint64) uint64   { point(KAdd); return x.v.Or(m) }
func (x *Uint64) CompareAndSwap(o, n uint64) bool {
	point(KCAS)
	ok := x.v.CompareAndSwap(o, n)
	casResult(ok)
	if ok {
		point(KAfterCAS)
	}
	return ok
}

type Uintptr struct{ v atomic.Uintptr }

func (x *Uintptr) Load() uintptr          { point(KLoad); return x.v.Load() }
func (x *Uintptr) Store(v uintptr)        { point(KStore); x.v.Store(v); point(KAfterStore) }
func (x *Uintptr) Swap(v uintptr) uintptr { point(KSwap); return x.v.Swap(v) }
func (x *Uintptr) Add(d uintptr) uintptr  { point(KAdd); return x.v.Add(d) }
func (x *Uintptr) CompareAndSwap(o, n uintptr) bool {
	point(KCAS)
	ok := x.v.CompareAndSwap(o, n)
	casResult(ok)
	if ok {
		point(KAfterCAS)
	}
	return ok
}

type Bool struct{ v atomic.Bool }

func (x *Bool) Load() bool       { point(KLoad); return x.v.Load() }
func (x *Bool) Store(v bool)     { point(KStore); x.v.Store(v); point(KAfterStore) }
func (x *Bool) Swap(v bool) bool { point(KSwap); return x.v.Swap(v) }
func (x *Bool) CompareAndSwap(o, n bool) bool {
	point(KCAS)
	ok := x.v.CompareAndSwap(o, n)
	casResult(ok)
	if ok {
		point(KAfterCAS)
	}
	return ok
}

type Pointer[T any] struct{ v atomic.Pointer[T] }

func (x *Pointer[T]) Load() *T     { point(KLoad); return x.v.Load() }
func (x *Pointer[T]) Store(v *T)   { point(KStore); x.v.Store(v); point(KAfterStore) }
func (x *Pointer[T]) Swap(v *T) *T { point(KSwap); return x.v.Swap(v) }
func (x *Pointer[T]) CompareAndSwap(o, n *T) bool {
	point(KCAS)
	ok := x.v.CompareAndSwap(o, n)
	casResult(ok)
	if ok {
		point(KAfterCAS)
	}
	return ok
}

// ---- sync.Mutex / RWMutex / Cond ----

// Mutex must stay exactly as large as sync.Mutex: the library computes bucket
// padding from unsafe.Sizeof of a struct that embeds it.
type Mutex struct{ m sync.Mutex }

func (m *Mutex) Lock() {
	point(KLock)
	if polling() {
		for !m.m.TryLock() {
			waitSpin(KLockSpin)
		}
	} else {
		m.m.Lock()
	}
	ledger(1)
}

func (m *Mutex) TryLock() bool {
	point(KLock)
	ok := m.m.TryLock()
	if ok {
		ledger(1)
	}
	return ok
}

func (m *Mutex) Unlock() {
	point(KUnlock)
	ledger(-1)
	m.m.Unlock()
	point(KAfterUnlock)
}

type RWMutex struct{ m sync.RWMutex }

func (m *RWMutex) Lock() {
	point(KLock)
	if polling() {
		for !m.m.TryLock() {
			waitSpin(KLockSpin)
		}
	} else {
		m.m.Lock()
	}
	ledger(1)
}
func (m *RWMutex) TryLock() bool {
	point(KLock)
	ok := m.m.TryLock()
	if ok {
		ledger(1)
	}
	return ok
}
func (m *RWMutex) Unlock() { point(KUnlock); ledger(-1); m.m.Unlock(); point(KAfterUnlock) }
func (m *RWMutex) RLock() {
	point(KLock)
	if polling() {
		for !m.m.TryRLock() {
			waitSpin(KLockSpin)
		}
	} else {
		m.m.RLock()
	}
	ledger(1)
}
func (m *RWMutex) TryRLock() bool {
	point(KLock)
	ok := m.m.TryRLock()
	if ok {
		ledger(1)
	}
	return ok
}
func (m *RWMutex) RUnlock()             { point(KUnlock); ledger(-1); m.m.RUnlock(); point(KAfterUnlock) }
func (m *RWMutex) RLocker() sync.Locker { return (*rlocker)(m) }

type rlocker RWMutex

func (r *rlocker) Lock()   { (*RWMutex)(r).RLock() }
func (r *rlocker) Unlock() { (*RWMutex)(r).RUnlock() }

// Cond: in passthrough mode a real sync.Cond; in polling mode a ticketed wait
// with the semantics of the runtime's notifyList (Broadcast releases every
// ticket issued so far, Signal exactly the oldest one; no spurious wake-ups),
// in which waiting consumes counted shim steps.
type Cond struct {
	L      sync.Locker
	c      sync.Cond
	wait   uint64
	notify uint64
}

func NewCond(l sync.Locker) *Cond {
	c := &Cond{L: l}
	c.c.L = l
	return c
}

func (c *Cond) Wait() {
	point(KCondWait)
	condWaited()
	if !polling() {
		if c.c.L == nil {
			c.c.L = c.L
		}
		// the real Wait unlocks and relocks c.L through its own methods, which are
		// the shim's when L is a *vshim.Mutex, so the ledger stays balanced
		c.c.Wait()
		return
	}
	t := atomic.AddUint64(&c.wait, 1) - 1
	c.L.Unlock()
	for atomic.LoadUint64(&c.notify) <= t {
		waitSpin(KCondSpin)
	}
	c.L.Lock()
}

func (c *Cond) Broadcast() {
	point(KBroadcast)
	for {
		n := atomic.LoadUint64(&c.notify)
		w := atomic.LoadUint64(&c.wait)
		if n >= w || atomic.CompareAndSwapUint64(&c.notify, n, w) {
			break
		}
	}
	c.c.Broadcast()
}

func (c *Cond) Signal() {
	point(KSignal)
	for {
		n := atomic.LoadUint64(&c.notify)
		w := atomic.LoadUint64(&c.wait)
		if n >= w || atomic.CompareAndSwapUint64(&c.notify, n, n+1) {
			break
		}
	}
	c.c.Signal()
}

// ---- runtime ----

func Gosched() { point(KGosched); spinTick(); runtime.Gosched() }

// ---- time ----

func Now() time.Time {
	point(KNow)
	if v, ok := virtualNow(); ok {
		return time.Unix(0, v)
	}
	return time.Now()
}

func Since(t time.Time) time.Duration { return Now().Sub(t) }
func Until(t time.Time) time.Duration { return t.Sub(Now()) }

func Sleep(d time.Duration) {
	point(KNow)
	if _, ok := virtualNow(); ok {
		// virtual time never advances on its own: yield a little and return
		for i := 0; i < 16; i++ {
			runtime.Gosched()
		}
		return
	}
	time.Sleep(d)
}

// Ticker mirrors time.Ticker. With the virtual clock it is a fake registered
// with the harness, which alone delivers ticks.
type Ticker struct {
	C    <-chan time.Time
	real *time.Ticker
	fake *FakeTicker
}

func NewTicker(d time.Duration) *Ticker {
	point(KTicker)
	if d <= 0 {
		panic("non-positive interval for NewTicker")
	}
	if f := newFakeTicker(d, false); f != nil {
		return &Ticker{C: f.ch, fake: f}
	}
	r := time.NewTicker(d)
	return &Ticker{C: r.C, real: r}
}

func (t *Ticker) Stop() {
	point(KTicker)
	if t.fake != nil {
		t.fake.stop()
		return
	}
	t.real.Stop()
}

func (t *Ticker) Reset(d time.Duration) {
	if d <= 0 {
		panic("non-positive interval for Ticker.Reset")
	}
	if t.fake != nil {
		t.fake.reset(d)
		return
	}
	t.real.Reset(d)
}

func Tick(d time.Duration) <-chan time.Time {
	if d <= 0 {
		return nil
	}
	return NewTicker(d).C
}

// Timer mirrors time.Timer (one-shot).
type Timer struct {
	C    <-chan time.Time
	real *time.Timer
	fake *FakeTicker
}

func NewTimer(d time.Duration) *Timer {
	point(KTicker)
	if f := newFakeTicker(d, true); f != nil {
		return &Timer{C: f.ch, fake: f}
	}
	r := time.NewTimer(d)
	return &Timer{C: r.C, real: r}
}

func (t *Timer) Stop() bool {
	if t.fake != nil {
		return t.fake.stop()
	}
	return t.real.Stop()
}

func (t *Timer) Reset(d time.Duration) bool {
	if t.fake != nil {
		return t.fake.reset(d)
	}
	return t.real.Reset(d)
}

func After(d time.Duration) <-chan time.Time { return NewTimer(d).C }

func AfterFunc(d time.Duration, f func()) *Timer {
	point(KTicker)
	if ft := newFakeTicker(d, true); ft != nil {
		ft.fn = f
		return &Timer{fake: ft}
	}
	return &Timer{real: time.AfterFunc(d, f)}
}
