//go:build verif && !race

package vshim

import (
	"fmt"
	"os"
	"runtime"
	"sync"
	"sync/atomic"
	"time"
	"unsafe"
)

const RaceBuild = false

// Mode bits. Changed only while no library code is running.
const (
	MCount   = 1 << iota // per-kind event counters
	MGlobal              // global step numbering (park points, reader budgets)
	MBudget              // livelock budget: steps without any Progress()
	MPerturb             // random Gosched pauses
	MPoll                // polling locks / condition waits (waiting consumes steps)
)

var mode int32

func SetMode(m int) { atomic.StoreInt32(&mode, int32(m)) }
func Mode() int     { return int(atomic.LoadInt32(&mode)) }

const nShards = 64

type shard struct {
	steps uint64
	kinds [NKinds]uint64
	_     [64]byte
}

var shards [nShards]shard

func shardOf() *shard {
	var x byte
	return &shards[(uintptr(unsafe.Pointer(&x))>>13)&(nShards-1)]
}

// ---- global step numbering / park / reader budget ----

var (
	gstep      int64
	parkAt     int64 // 0 = disarmed
	parkedCh   = make(chan int64, 1)
	resumeCh   = make(chan struct{})
	tokenCh    = make(chan *ParkToken, 4)
	useTokens  int32
	spinArmed  int32
	spinCh     = make(chan struct{}, 1)
	budgetFrom int64 // reader budget: steps counted from here
	budgetMax  int64 // 0 = off
)

// GStep returns the global step counter (meaningful with MGlobal).
func GStep() int64 { return atomic.LoadInt64(&gstep) }

// ResetGStep zeroes the global step counter.
func ResetGStep() { atomic.StoreInt64(&gstep, 0) }

// ArmPark makes the goroutine executing global step n block until Resume.
func ArmPark(n int64) { atomic.StoreInt64(&parkAt, n) }

// Parked is signalled (with the step number) when a goroutine parks.
func Parked() <-chan int64 { return parkedCh }

// Resume releases the parked goroutine.
func Resume() { resumeCh <- struct{}{} }

// ParkToken identifies one parked goroutine when several may be parked at once
// (token mode, used for two-goroutine schedule enumeration).
type ParkToken struct {
	Step   int64
	Kind   Kind // the kind of shim point the goroutine is parked at
	resume chan struct{}
}

// Spinning reports whether the goroutine was parked inside a wait loop (lock
// spin, condition spin, Gosched of a spin lock), i.e. while already waiting.
func (t *ParkToken) Spinning() bool {
	return t.Kind == KLockSpin || t.Kind == KCondSpin || t.Kind == KGosched
}

// Resume releases exactly this goroutine.
func (t *ParkToken) Resume() { t.resume <- struct{}{} }

// SetTokenMode: parks are announced on ParkedTokens() with their own resume channel.
func SetTokenMode(on bool) {
	if on {
		atomic.StoreInt32(&useTokens, 1)
	} else {
		atomic.StoreInt32(&useTokens, 0)
	}
}

// ParkedTokens delivers a token for every park in token mode.
func ParkedTokens() <-chan *ParkToken { return tokenCh }

// ArmSpinNotify: the next goroutine that spins more than 2000 times in one
// polling lock / condition wait announces it once on SpinNotified(), i.e. "I am
// blocked on something another goroutine holds".
func ArmSpinNotify() {
	select {
	case <-spinCh:
	default:
	}
	atomic.StoreInt32(&spinArmed, 1)
}

func DisarmSpinNotify() { atomic.StoreInt32(&spinArmed, 0) }

func SpinNotified() <-chan struct{} { return spinCh }

// SetStepBudget: from now on, if more than max global steps are executed the
// goroutine executing the offending step is reported through OnStuck.
func SetStepBudget(max int64) {
	atomic.StoreInt64(&budgetFrom, atomic.LoadInt64(&gstep))
	atomic.StoreInt64(&budgetMax, max)
}

// ---- livelock budget (no API call returned for B steps) ----

var (
	callsDone  uint64
	lastCalls  uint64
	lastTotal  uint64
	liveBudget uint64 = 1 << 28
	budgetMu   sync.Mutex
	stuckOnce  int32
	OnStuck    func(reason string) // nil: dump stacks, exit(3)
	StuckExit  = 3
)

// Progress is called by the harness whenever an API call has returned.
func Progress() { atomic.AddUint64(&callsDone, 1) }

func SetLiveBudget(b uint64) { liveBudget = b }

func totalSteps() uint64 {
	var t uint64
	for i := range shards {
		t += atomic.LoadUint64(&shards[i].steps)
	}
	return t
}

// TotalSteps returns the number of shim points executed (MCount or MBudget).
func TotalSteps() uint64 { return totalSteps() }

func checkLive() {
	budgetMu.Lock()
	c := atomic.LoadUint64(&callsDone)
	t := totalSteps()
	if c != lastCalls || t < lastTotal {
		lastCalls, lastTotal = c, t
		budgetMu.Unlock()
		return
	}
	d := t - lastTotal
	budgetMu.Unlock()
	if d > liveBudget {
		stuck(fmt.Sprintf("livelock: %d shim steps executed and no API call returned", d))
	}
}

// ResetLive restarts the livelock accounting (call at the start of a phase).
func ResetLive() {
	budgetMu.Lock()
	lastCalls = atomic.LoadUint64(&callsDone)
	lastTotal = totalSteps()
	budgetMu.Unlock()
}

func stuck(reason string) {
	if f := OnStuck; f != nil {
		f(reason)
		return
	}
	if atomic.CompareAndSwapInt32(&stuckOnce, 0, 1) {
		buf := make([]byte, 1<<20)
		n := runtime.Stack(buf, true)
		fmt.Fprintf(os.Stderr, "VSHIM-STUCK: %s\n%s\n", reason, buf[:n])
		os.Exit(StuckExit)
	}
	select {}
}

// ---- counters ----

var (
	casFail   uint64
	condWaits uint64
	lockSpins uint64
	condSpins uint64
	parks     uint64
	lockBal   int64
)

type Counters struct {
	Steps     uint64
	Kinds     map[string]uint64
	CASFail   uint64
	CondWaits uint64
	LockSpins uint64
	CondSpins uint64
	Parks     uint64
}

func ReadCounters() Counters {
	c := Counters{Kinds: map[string]uint64{}}
	for i := range shards {
		c.Steps += atomic.LoadUint64(&shards[i].steps)
		for k := range shards[i].kinds {
			c.Kinds[KindNames[k]] += atomic.LoadUint64(&shards[i].kinds[k])
		}
	}
	c.CASFail = atomic.LoadUint64(&casFail)
	c.CondWaits = atomic.LoadUint64(&condWaits)
	c.LockSpins = atomic.LoadUint64(&lockSpins)
	c.CondSpins = atomic.LoadUint64(&condSpins)
	c.Parks = atomic.LoadUint64(&parks)
	return c
}

func CondWaits() uint64 { return atomic.LoadUint64(&condWaits) }
func CASFails() uint64  { return atomic.LoadUint64(&casFail) }

// LockBalance is acquisitions minus releases over all shim mutexes.
func LockBalance() int64 { return atomic.LoadInt64(&lockBal) }

func casResult(ok bool) {
	if !ok && atomic.LoadInt32(&mode)&MCount != 0 {
		atomic.AddUint64(&casFail, 1)
	}
}
func condWaited()    { atomic.AddUint64(&condWaits, 1) }
func ledger(d int64) { atomic.AddInt64(&lockBal, d) }
func polling() bool  { return atomic.LoadInt32(&mode)&MPoll != 0 }

var goscheds uint64

// spinTick: the library's own spin loops (bucket spin lock) yield through Gosched
func spinTick() {
	n := atomic.AddUint64(&goscheds, 1)
	if n&2047 == 0 && atomic.LoadInt32(&spinArmed) != 0 && atomic.CompareAndSwapInt32(&spinArmed, 1, 0) {
		select {
		case spinCh <- struct{}{}:
		default:
		}
	}
}

func waitSpin(k Kind) {
	var n uint64
	if k == KLockSpin {
		n = atomic.AddUint64(&lockSpins, 1)
	} else {
		n = atomic.AddUint64(&condSpins, 1)
	}
	if n&2047 == 0 && atomic.LoadInt32(&spinArmed) != 0 && atomic.CompareAndSwapInt32(&spinArmed, 1, 0) {
		select {
		case spinCh <- struct{}{}:
		default:
		}
	}
	point(k)
	runtime.Gosched()
}

func point(k Kind) {
	m := atomic.LoadInt32(&mode)
	if m == 0 {
		return
	}
	if m&(MCount|MBudget) != 0 {
		s := shardOf()
		n := atomic.AddUint64(&s.steps, 1)
		if m&MCount != 0 {
			atomic.AddUint64(&s.kinds[k], 1)
		}
		if m&MBudget != 0 && n&0x3fff == 0 {
			checkLive()
		}
	}
	if m&MGlobal != 0 {
		n := atomic.AddInt64(&gstep, 1)
		if p := atomic.LoadInt64(&parkAt); p != 0 && n == p {
			atomic.StoreInt64(&parkAt, 0)
			atomic.AddUint64(&parks, 1)
			if atomic.LoadInt32(&useTokens) != 0 {
				t := &ParkToken{Step: n, Kind: k, resume: make(chan struct{})}
				tokenCh <- t
				<-t.resume
			} else {
				parkedCh <- n
				<-resumeCh
			}
		}
		if b := atomic.LoadInt64(&budgetMax); b != 0 && n-atomic.LoadInt64(&budgetFrom) > b {
			stuck(fmt.Sprintf("step budget of %d exceeded at %s", b, KindNames[k]))
		}
	}
	if m&MPerturb != 0 {
		perturb(k)
	}
}

// ---- virtual clock and fake tickers ----

var (
	virtual int32
	vnow    int64 = 1_700_000_000_000_000_000
	tmu     sync.Mutex
	tickers []*FakeTicker
)

// SetVirtual switches the virtual clock on or off.
func SetVirtual(on bool) {
	if on {
		atomic.StoreInt32(&virtual, 1)
	} else {
		atomic.StoreInt32(&virtual, 0)
	}
}

func virtualNow() (int64, bool) {
	if atomic.LoadInt32(&virtual) == 0 {
		return 0, false
	}
	if d := atomic.LoadInt64(&autoTick); d != 0 {
		return atomic.AddInt64(&vnow, d) - d, true
	}
	return atomic.LoadInt64(&vnow), true
}

var autoTick int64

// SetAutoTick makes every clock reading advance the virtual clock by d ns
// (0 switches it off): consecutive readings inside one call then differ, as they
// do with the real clock.
func SetAutoTick(d int64) { atomic.StoreInt64(&autoTick, d) }

// VNow returns the virtual instant in ns.
func VNow() int64 { return atomic.LoadInt64(&vnow) }

// SetVNow sets the virtual instant without delivering ticks.
func SetVNow(t int64) { atomic.StoreInt64(&vnow, t) }

// AdvanceQuiet moves the virtual clock without delivering ticks.
func AdvanceQuiet(d time.Duration) { atomic.AddInt64(&vnow, int64(d)) }

type FakeTicker struct {
	ch      chan time.Time
	Period  time.Duration
	OneShot bool
	next    int64
	stopped int32
	fired   int32 // one-shot: its single tick has been delivered
	per     int64 // current period (atomic mirror of Period, which Reset rewrites)
	Stops   int32
	fn      func()
	Sent    int64
	Dropped int64
}

func newFakeTicker(d time.Duration, oneShot bool) *FakeTicker {
	v, ok := virtualNow()
	if !ok {
		return nil
	}
	f := &FakeTicker{ch: make(chan time.Time, 1), Period: d, per: int64(d), OneShot: oneShot, next: v + int64(d)}
	tmu.Lock()
	tickers = append(tickers, f)
	tmu.Unlock()
	return f
}

func (f *FakeTicker) stop() bool {
	atomic.AddInt32(&f.Stops, 1)
	return atomic.SwapInt32(&f.stopped, 1) == 0 && !(f.OneShot && atomic.LoadInt32(&f.fired) != 0)
}

func (f *FakeTicker) reset(d time.Duration) bool {
	was := atomic.SwapInt32(&f.stopped, 0) == 0
	if atomic.SwapInt32(&f.fired, 0) != 0 {
		was = false
	}
	f.Period = d
	atomic.StoreInt64(&f.per, int64(d))
	atomic.StoreInt64(&f.next, atomic.LoadInt64(&vnow)+int64(d))
	return was
}

func (f *FakeTicker) Stopped() bool { return atomic.LoadInt32(&f.stopped) != 0 }

// Armed reports whether the source can still deliver a tick: a ticker that was
// not stopped, or a timer that was neither stopped nor has fired (Reset re-arms it).
func (f *FakeTicker) Armed() bool {
	return !f.Stopped() && !(f.OneShot && atomic.LoadInt32(&f.fired) != 0)
}

func (f *FakeTicker) IsOneShot() bool { return f.OneShot }

func (f *FakeTicker) sent() {
	atomic.AddInt64(&f.Sent, 1)
	if f.OneShot {
		atomic.StoreInt32(&f.fired, 1)
	}
}

// Fire delivers one tick the way the runtime does: dropped if the channel
// buffer is still full. Reports whether it was queued.
func (f *FakeTicker) Fire() bool {
	if !f.Armed() {
		return false
	}
	if f.fn != nil {
		f.sent()
		go f.fn()
		return true
	}
	select {
	case f.ch <- time.Unix(0, atomic.LoadInt64(&vnow)):
		f.sent()
		return true
	default:
		atomic.AddInt64(&f.Dropped, 1)
		return false
	}
}

// FireWait delivers one tick, yielding up to maxYields times until the
// receiver has room for it. Reports whether it was queued.
func (f *FakeTicker) FireWait(maxYields int) bool {
	if f.fn != nil {
		return f.Fire()
	}
	for i := 0; i <= maxYields; i++ {
		if !f.Armed() {
			return false
		}
		select {
		case f.ch <- time.Unix(0, atomic.LoadInt64(&vnow)):
			f.sent()
			return true
		default:
			runtime.Gosched()
		}
	}
	return false
}

// Next returns the virtual instant at which the source is due next.
func (f *FakeTicker) Next() int64 { return atomic.LoadInt64(&f.next) }

// CurrentPeriod returns the period in force (Reset may have changed it).
func (f *FakeTicker) CurrentPeriod() time.Duration { return time.Duration(atomic.LoadInt64(&f.per)) }

// FireDue delivers one tick if the source is armed and due at the virtual instant
// now (waiting for room like FireWait) and moves a periodic source's due time past
// now, the way the runtime drops the ticks a slow receiver missed.
func (f *FakeTicker) FireDue(now int64, maxYields int) (due, delivered bool) {
	if !f.Armed() || f.Next() > now {
		return false, false
	}
	ok := f.FireWait(maxYields)
	if !f.OneShot {
		p := atomic.LoadInt64(&f.per)
		if p <= 0 {
			p = 1
		}
		nx := f.Next()
		if nx <= now {
			nx += ((now-nx)/p + 1) * p
			atomic.StoreInt64(&f.next, nx)
		}
	}
	return true, ok
}

// Pending reports whether a tick sits undelivered in the channel.
func (f *FakeTicker) Pending() bool { return len(f.ch) > 0 }

// Tickers returns the fake tickers created since the last ResetTickers.
func Tickers() []*FakeTicker {
	tmu.Lock()
	defer tmu.Unlock()
	return append([]*FakeTicker(nil), tickers...)
}

func ResetTickers() {
	tmu.Lock()
	tickers = nil
	tmu.Unlock()
}

// Advance moves the virtual clock by d and fires every ticker/timer whose
// period boundary was crossed (at most one queued tick per ticker, like the
// real runtime).
func Advance(d time.Duration) {
	now := atomic.AddInt64(&vnow, int64(d))
	for _, f := range Tickers() {
		if !f.Armed() {
			continue
		}
		for nx := atomic.LoadInt64(&f.next); nx <= now; nx = atomic.LoadInt64(&f.next) {
			f.Fire()
			if f.OneShot {
				atomic.StoreInt32(&f.fired, 1)
				break
			}
			atomic.StoreInt64(&f.next, nx+int64(f.Period))
		}
	}
}
