//go:build verif && race

package vshim

import (
	"runtime"
	"time"
)

// Race-detector variant: the shim keeps NO shared state. point() only injects
// PRNG-driven Gosched pauses (per-M generator, no synchronisation), locks and
// condition variables are the real ones, the clock is the real one. Nothing in
// here can create a happens-before edge that the library does not create.

const RaceBuild = true

func point(k Kind)              { perturb(k) }
func casResult(ok bool)         {}
func condWaited()               {}
func ledger(d int64)            {}
func polling() bool             { return false }
func spinTick()                 {}
func waitSpin(k Kind)           { runtime.Gosched() }
func virtualNow() (int64, bool) { return 0, false }

type FakeTicker struct {
	ch     chan time.Time
	fn     func()
	Period time.Duration
}

func newFakeTicker(d time.Duration, oneShot bool) *FakeTicker { return nil }
func (f *FakeTicker) stop() bool                              { return false }
func (f *FakeTicker) reset(d time.Duration) bool              { return false }

// ---- no-op control API so that one harness source builds in both variants ----

const (
	MCount = 1 << iota
	MGlobal
	MBudget
	MPerturb
	MPoll
)

type Counters struct {
	Steps                                           uint64
	Kinds                                           map[string]uint64
	CASFail, CondWaits, LockSpins, CondSpins, Parks uint64
}

var OnStuck func(reason string)

func SetMode(m int)                                {}
func Mode() int                                    { return 0 }
func GStep() int64                                 { return 0 }
func ResetGStep()                                  {}
func ArmPark(n int64)                              {}
func Parked() <-chan int64                         { return nil }
func Resume()                                      {}
func SetStepBudget(max int64)                      {}
func Progress()                                    {}
func SetLiveBudget(b uint64)                       {}
func TotalSteps() uint64                           { return 0 }
func ResetLive()                                   {}
func ReadCounters() Counters                       { return Counters{} }
func CondWaits() uint64                            { return 0 }
func CASFails() uint64                             { return 0 }
func LockBalance() int64                           { return 0 }
func SetVirtual(on bool)                           {}
func VNow() int64                                  { return time.Now().UnixNano() }
func SetVNow(t int64)                              {}
func SetAutoTick(d int64)                          {}
func AdvanceQuiet(d time.Duration)                 {}
func Advance(d time.Duration)                      {}
func Tickers() []*FakeTicker                       { return nil }
func ResetTickers()                                {}
func (f *FakeTicker) Stopped() bool                { return false }
func (f *FakeTicker) Fire() bool                   { return false }
func (f *FakeTicker) FireWait(int) bool            { return false }
func (f *FakeTicker) Pending() bool                { return false }
func (f *FakeTicker) Armed() bool                  { return false }
func (f *FakeTicker) Next() int64                  { return 0 }
func (f *FakeTicker) CurrentPeriod() time.Duration { return 0 }
func (f *FakeTicker) FireDue(int64, int) (bool, bool) {
	return false, false
}
func (f *FakeTicker) IsOneShot() bool { return false }

type ParkToken struct {
	Step int64
	Kind Kind
}

func (t *ParkToken) Resume()          {}
func (t *ParkToken) Spinning() bool   { return false }
func SetTokenMode(on bool)            {}
func ParkedTokens() <-chan *ParkToken { return nil }
func ArmSpinNotify()                  {}
func DisarmSpinNotify()               {}
func SpinNotified() <-chan struct{}   { return nil }
