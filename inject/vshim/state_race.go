//go:build verif && race

package vshim

import (
	"runtime"
	"time"
)

// Race-detector variant: the shim keeps NO shared state. point() only injects
// PRNG-driven Gosched pauses (per-M generator, no synchronisation), locks and
// condition variables are the real ones, the clock is the real one. Nothing in
// here can create a happens-before edge that the library does not create.

const RaceBuild = true

func point(k Kind)        { perturb(k) }
func casResult(ok bool)   {}
func condWaited()         {}
func ledger(d int64)      {}
func polling() bool       { return false }
func waitSpin(k Kind)     { runtime.Gosched() }
func virtualNow() (int64, bool) { return 0, false }

type FakeTicker struct {
	ch chan time.Time
	fn func()
}

func newFakeTicker(d time.Duration, oneShot bool) *FakeTicker { return nil }
func (f *FakeTicker) stop() bool                             { return false }
func (f *FakeTicker) reset(d time.Duration) bool             { return false }
