//go:build verif && !noinspect

package xsync

import (
	"fmt"
	"sync/atomic"
)

// Optional read-only structural walk, used at quiescent points only.

func (m *Map) VerifBucketIndex(key string) int {
	table := (*mapTable)(atomic.LoadPointer(&m.table))
	return int(uint64(len(table.buckets)-1) & hashString(key, table.seed))
}

func (m *MapOf[K, V]) VerifBucketIndex(key K) int {
	table := (*mapOfTable[K, V])(atomic.LoadPointer(&m.table))
	return int(uint64(len(table.buckets)-1) & h1(m.hasher(key, table.seed)))
}

func (m *Map) VerifLockedBuckets() int {
	table := (*mapTable)(atomic.LoadPointer(&m.table))
	n := 0
	for i := range table.buckets {
		if atomic.LoadUint64(&table.buckets[i].topHashMutex)&1 != 0 {
			n++
		}
	}
	if atomic.LoadInt64(&m.resizing) != 0 {
		n += 1 << 20
	}
	return n
}

func (m *MapOf[K, V]) VerifLockedBuckets() int {
	table := (*mapOfTable[K, V])(atomic.LoadPointer(&m.table))
	n := 0
	for i := range table.buckets {
		if table.buckets[i].mu.TryLock() {
			table.buckets[i].mu.Unlock()
		} else {
			n++
		}
	}
	if atomic.LoadInt64(&m.resizing) != 0 {
		n += 1 << 20
	}
	return n
}

// VerifStructure checks, on a quiescent Map: presence bits <=> non-nil key and
// value pointers, top hashes match the keys, no key twice, every key in the
// chain its hash selects, striped counter == walked size.
func (m *Map) VerifStructure() (bad []string) {
	table := (*mapTable)(atomic.LoadPointer(&m.table))
	seen := map[string]bool{}
	walked := 0
	for i := range table.buckets {
		b := &table.buckets[i]
		for {
			th := atomic.LoadUint64(&b.topHashMutex)
			for j := 0; j < entriesPerMapBucket; j++ {
				kp := atomic.LoadPointer(&b.keys[j])
				vp := atomic.LoadPointer(&b.values[j])
				present := th&(1<<(j+1)) != 0
				if (kp != nil) != (vp != nil) {
					bad = append(bad, fmt.Sprintf("bucket %d slot %d: key/value pointer mismatch", i, j))
				}
				if present != (kp != nil) {
					bad = append(bad, fmt.Sprintf("bucket %d slot %d: presence bit %v but key pointer nil=%v", i, j, present, kp == nil))
				}
				if kp == nil {
					continue
				}
				walked++
				k := derefKey(kp)
				if seen[k] {
					bad = append(bad, fmt.Sprintf("key %q stored twice", k))
				}
				seen[k] = true
				h := hashString(k, table.seed)
				if int(uint64(len(table.buckets)-1)&h) != i {
					bad = append(bad, fmt.Sprintf("key %q in chain %d, hash selects another", k, i))
				}
				if present && !topHashMatch(h, th, j) {
					bad = append(bad, fmt.Sprintf("key %q: top hash mismatch", k))
				}
			}
			np := atomic.LoadPointer(&b.next)
			if np == nil {
				break
			}
			b = (*bucketPadded)(np)
		}
	}
	if c := int(table.sumSize()); c != walked {
		bad = append(bad, fmt.Sprintf("counter %d != walked size %d", c, walked))
	}
	return bad
}

func (m *MapOf[K, V]) VerifStructure() (bad []string) {
	table := (*mapOfTable[K, V])(atomic.LoadPointer(&m.table))
	seen := map[K]bool{}
	walked := 0
	for i := range table.buckets {
		b := &table.buckets[i]
		for {
			meta := atomic.LoadUint64(&b.meta)
			for j := 0; j < entriesPerMapOfBucket; j++ {
				ep := atomic.LoadPointer(&b.entries[j])
				mb := uint8(meta >> (8 * j))
				if (mb != emptyMetaSlot) != (ep != nil) {
					bad = append(bad, fmt.Sprintf("bucket %d slot %d: meta byte %#x but entry nil=%v", i, j, mb, ep == nil))
				}
				if ep == nil {
					continue
				}
				walked++
				e := (*entryOf[K, V])(ep)
				if seen[e.key] {
					bad = append(bad, fmt.Sprintf("key %v stored twice", e.key))
				}
				seen[e.key] = true
				h := m.hasher(e.key, table.seed)
				if int(uint64(len(table.buckets)-1)&h1(h)) != i {
					bad = append(bad, fmt.Sprintf("key %v in chain %d, hash selects another", e.key, i))
				}
				if mb != emptyMetaSlot && mb != h2(h) {
					bad = append(bad, fmt.Sprintf("key %v: meta byte mismatch", e.key))
				}
			}
			np := atomic.LoadPointer(&b.next)
			if np == nil {
				break
			}
			b = (*bucketOfPadded)(np)
		}
	}
	if c := int(table.sumSize()); c != walked {
		bad = append(bad, fmt.Sprintf("counter %d != walked size %d", c, walked))
	}
	return bad
}
