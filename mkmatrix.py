#!/usr/bin/env python3
"""Regenerates the detection matrix of DESIGN.md section 0.4 from seeded/*/meta.json."""
import json, glob, re, os
HERE = os.path.dirname(os.path.abspath(__file__))
rows = []
def key(p):
    m = re.search(r'(C\d+)-(\d+)/meta.json$', p)
    return (m.group(1), int(m.group(2)))
for f in sorted(glob.glob(os.path.join(HERE, 'seeded/*/meta.json')), key=key):
    m = json.load(open(f))
    rows.append("| %s (r%s): %s | %s | %s |" % (m['id'], m.get('round', '?'), m['change'].replace('|', '/'), m['needs_to_manifest'].replace('|', '/'), m['caught_by'].replace('|', '/')))
p = os.path.join(HERE, 'DESIGN.md')
s = open(p).read()
hdr = "| change | needs | caught by (quick) |\n|---|---|---|\n"
i = s.index(hdr) + len(hdr)
j = i
while s[j:j+1] == '|':
    j = s.index('\n', j) + 1
s = s[:i] + "\n".join(rows) + "\n" + s[j:]
open(p, 'w').write(s)
print(len(rows), "rows")
