#!/bin/bash
# Runs every seeded change against the quick check of its own property (and any extra ids given
# as "ID:PROP" arguments); prints one line per change. Used to re-confirm the detection matrix.
HERE="$(cd "$(dirname "$0")" && pwd)"
cd "$HERE"
for d in seeded/*/; do
  id=$(basename $d)
  prop=${id%%-*}
  r=$(./seedtest.sh $d/patch.diff $prop 2>&1 | head -1 | cut -c1-160)
  echo "$id $r"
done
