#!/bin/bash
# Runs every seeded change against the quick check of its own property (and any extra ids given
# as "ID:PROP" arguments); prints one line per change. Used to re-confirm the detection matrix.
HERE="$(cd "$(dirname "$0")" && pwd)"
cd "$HERE"
# optional arguments: property ids to restrict the run to (e.g. C01 C02)
for d in seeded/*/; do
  id=$(basename $d)
  prop=${id%%-*}
  if [ $# -gt 0 ]; then case " $* " in *" $prop "*) ;; *) continue;; esac; fi
  r=$(./seedtest.sh $d/patch.diff $prop 2>&1 | head -1 | cut -c1-160)
  echo "$id $r"
done
